"""The EEMS data-command stream: cases (command, cleaned parameters, input arrays) run on the real
`execute` bodies and on the Lean model's `exec`; shared by C03-C09 (each adds its own oracles).
"""
from __future__ import print_function

import importlib
import itertools
import warnings
from fractions import Fraction

import numpy

from . import common
from .common import enc_arr, enc_num, enc_nums, enc_str

# command -> (library module, how inputs are passed, {python kwarg: (protocol key, type)})
N, NS, S, B = "num", "nums", "str", "bool"
COMMANDS = {
    "Copy": ("basic", "one", {}),
    "AMinusB": ("basic", "ab", {}),
    "Sum": ("basic", "list", {}),
    "WeightedSum": ("basic", "list", {"Weights": ("w", NS)}),
    "Multiply": ("basic", "list", {}),
    "ADividedByB": ("basic", "ab", {}),
    "Minimum": ("basic", "list", {}),
    "Maximum": ("basic", "list", {}),
    "Mean": ("basic", "list", {}),
    "WeightedMean": ("basic", "list", {"Weights": ("w", NS)}),
    "Normalize": ("basic", "one", {"StartVal": ("start", N), "EndVal": ("end", N)}),
    "NormalizeZScore": ("basic", "one", {"TrueThresholdZScore": ("t", N), "FalseThresholdZScore": ("f", N),
                                          "StartVal": ("start", N), "EndVal": ("end", N)}),
    "NormalizeCat": ("basic", "one", {"RawValues": ("raw", NS), "NormalValues": ("val", NS), "DefaultNormalValue": ("default", N)}),
    "NormalizeCurve": ("basic", "one", {"RawValues": ("raw", NS), "NormalValues": ("val", NS)}),
    "NormalizeMeanToMid": ("basic", "one", {"IgnoreZeros": ("iz", B), "NormalValues": ("val", NS)}),
    "NormalizeCurveZScore": ("basic", "one", {"ZScoreValues": ("z", NS), "NormalValues": ("val", NS)}),
    "CvtToFuzzy": ("fuzzy", "one", {"TrueThreshold": ("t", N), "FalseThreshold": ("f", N), "Direction": ("dir", S)}),
    "CvtToFuzzyZScore": ("fuzzy", "one", {"TrueThresholdZScore": ("t", N), "FalseThresholdZScore": ("f", N)}),
    "CvtToFuzzyCat": ("fuzzy", "one", {"RawValues": ("raw", NS), "FuzzyValues": ("val", NS), "DefaultFuzzyValue": ("default", N)}),
    "CvtToFuzzyCurve": ("fuzzy", "one", {"RawValues": ("raw", NS), "FuzzyValues": ("val", NS)}),
    "CvtToFuzzyMeanToMid": ("fuzzy", "one", {"IgnoreZeros": ("iz", B), "FuzzyValues": ("val", NS)}),
    "CvtToFuzzyCurveZScore": ("fuzzy", "one", {"ZScoreValues": ("z", NS), "FuzzyValues": ("val", NS)}),
    "CvtToBinary": ("fuzzy", "one", {"Threshold": ("th", N), "Direction": ("dir", S)}),
    "FuzzyUnion": ("fuzzy", "list", {}),
    "FuzzyWeightedUnion": ("fuzzy", "list", {"Weights": ("w", NS)}),
    "FuzzySelectedUnion": ("fuzzy", "list", {"TruestOrFalsest": ("sel", S), "NumberToConsider": ("k", N)}),
    "FuzzyOr": ("fuzzy", "list", {}),
    "FuzzyAnd": ("fuzzy", "list", {}),
    "FuzzyXOr": ("fuzzy", "list", {}),
    "FuzzyNot": ("fuzzy", "one", {}),
    "CvtFromFuzzy": ("fuzzy", "one", {"TrueThreshold": ("t", N), "FalseThreshold": ("f", N)}),
}
FUZZY_PRODUCERS = ["CvtToFuzzy", "CvtToFuzzyZScore", "CvtToFuzzyCat", "CvtToFuzzyCurve", "CvtToFuzzyMeanToMid",
                   "CvtToFuzzyCurveZScore", "CvtToBinary", "FuzzyUnion", "FuzzyWeightedUnion", "FuzzySelectedUnion",
                   "FuzzyOr", "FuzzyAnd", "FuzzyXOr", "FuzzyNot"]
FUZZY_CONSUMERS = ["FuzzyUnion", "FuzzyWeightedUnion", "FuzzySelectedUnion", "FuzzyOr", "FuzzyAnd", "FuzzyXOr", "FuzzyNot", "CvtFromFuzzy"]
ARITH = ["Sum", "WeightedSum", "Multiply", "AMinusB", "ADividedByB", "Minimum", "Maximum", "Mean", "WeightedMean", "Copy"]
CONVERSIONS = ["CvtToFuzzy", "CvtFromFuzzy", "CvtToBinary", "CvtToFuzzyCat", "CvtToFuzzyCurve", "CvtToFuzzyZScore",
               "CvtToFuzzyCurveZScore", "CvtToFuzzyMeanToMid", "Normalize", "NormalizeCat", "NormalizeCurve",
               "NormalizeZScore", "NormalizeCurveZScore", "NormalizeMeanToMid"]
ZSCORE = ["NormalizeZScore", "NormalizeCurveZScore", "CvtToFuzzyZScore", "CvtToFuzzyCurveZScore"]

# on the pinned tree these four divide by a standard deviation / take the mean of an empty selection with plain scalar arithmetic: their degenerate
# cases already depend on the caller's numpy error settings
STRICT_EXEMPT = {"NormalizeMeanToMid", "CvtToFuzzyMeanToMid", "NormalizeCurveZScore", "CvtToFuzzyCurveZScore"}
CMD_LINE = 1000
ARG_LINE0 = 2000


class Producer(object):
    """stand-in for a finished producer command (what `kwargs[...]` holds after cleaning)"""

    def __init__(self, arr, name, fuzzy):
        from mpilot import params
        self._arr = arr
        self.reads = 0
        self.result_name = name
        self.is_finished = True
        self.is_fuzzy = fuzzy
        self.output = params.DataParameter()

    @property
    def result(self):
        self.reads += 1
        return self._arr


class Case(object):
    def __init__(self, cmd, params, inputs):
        self.cmd = cmd
        self.params = dict(params)      # python kwarg -> cleaned value
        # list of masked arrays (a plain ndarray - what a command hands on when it loses the masked type - is read as a field without missing cells)
        self.inputs = [a if isinstance(a, numpy.ma.MaskedArray) or not isinstance(a, numpy.ndarray) else numpy.ma.array(a) for a in inputs]

    def spec(self):
        lib, how, pmap = COMMANDS[self.cmd]
        parts = [self.cmd]
        for k, (key, ty) in pmap.items():
            if k in self.params:
                v = self.params[k]
                if ty == N:
                    parts.append("%s=%s" % (key, enc_num(v)))
                elif ty == NS:
                    parts.append("%s=%s" % (key, enc_nums(v)))
                elif ty == S:
                    parts.append("%s=%s" % (key, enc_str(v)))
                else:
                    parts.append("%s=%d" % (key, 1 if v else 0))
        return "|".join(parts)

    def line(self):
        return " ".join(["exec", self.spec()] + [enc_arr(a) for a in self.inputs])

    def describe(self):
        return {"cmd": self.cmd, "params": {k: repr(v) for k, v in self.params.items()},
                "inputs": [repr(a.tolist()) + " mask=" + repr(numpy.ma.getmaskarray(a).astype(int).tolist()) + " dtype=" + str(a.dtype) + " data=" + repr(numpy.ma.getdata(a).tolist()) for a in self.inputs],
                "protocol": self.line()}

    def canonical(self):
        return self.line()

    def with_inputs(self, inputs, params=None):
        return Case(self.cmd, self.params if params is None else params, inputs)


def command_class(name):
    lib = COMMANDS[name][0]
    return getattr(importlib.import_module("mpilot.libraries.eems." + lib), name)


def run_impl(case, copy_inputs=True, strict=False, plain=False, derived=None, reuse=None):
    """Runs the real `execute`.  Returns a dict:
       {"status": "ok", "result": array, "vis": ..., "producers": [...]} or
       {"status": "err", "kind": "mp"|"raw", "cls": ..., "ref": "cmd"|"none"|"arg:<name>"|"line:<n>"}
       derived=<built-in command name>: the producers are finished commands of a plug-in class derived from that built-in command"""
    from mpilot.arguments import Argument
    from mpilot.exceptions import MPilotError
    lib, how, pmap = COMMANDS[case.cmd]
    cls = command_class(case.cmd)
    # a field may be listed more than once: inputs that are one object in the case are one producer command here
    first = {}
    for i, a in enumerate(case.inputs):
        first.setdefault(id(a), i)
    copies = {i: (case.inputs[i].copy() if copy_inputs else case.inputs[i]) for i in set(first.values())}
    inputs = [copies[first[id(a)]] for a in case.inputs]
    fuzzy_in = case.cmd in FUZZY_CONSUMERS
    # plain: the producers hand out plain ndarrays (what a plug-in command that knows nothing of masked arrays returns) - only used when nothing is missing
    def _as_plain(i):
        return plain is True or (plain == "first" and i == first[id(case.inputs[0])])
    handed = {i: (numpy.array(numpy.ma.getdata(copies[i])) if _as_plain(i) else copies[i]) for i in copies}
    if reuse is not None and reuse:
        uniq = reuse                    # the producer commands of an earlier call (same array objects, possibly edited in place since)
    elif derived is None:
        uniq = {i: Producer(handed[i], "I%d" % i, fuzzy_in) for i in copies}
    else:
        uniq = {i: derived_producer(derived, handed[i], "I%d" % i) for i in copies}
    if reuse is not None and not reuse:
        reuse.update(uniq)
    prods = [uniq[first[id(a)]] for a in case.inputs]
    kwargs = dict(case.params)
    if how == "one":
        kwargs["InFieldName"] = prods[0]
        names = ["InFieldName"]
    elif how == "ab":
        kwargs["A"], kwargs["B"] = prods[0], prods[1]
        names = ["A", "B"]
    else:
        kwargs["InFieldNames"] = list(prods)
        names = ["InFieldNames"]
    arg_names = names + [k for k in pmap if k in case.params]
    args = [Argument(n, None, ARG_LINE0 + i) for i, n in enumerate(arg_names)]
    cmd = cls("R", args, program=None, lineno=CMD_LINE)
    out = {"producers": prods, "inputs_after": inputs, "handed": [handed[first[id(a)]] for a in case.inputs]}
    with warnings.catch_warnings():
        # strict: the caller has turned warnings into errors and told numpy to raise on floating-point events
        warnings.simplefilter("ignore")
        if strict:
            # (only the two events numpy's masked arithmetic promises to handle itself: x/0 and 0/0 never reach the caller)
            # ... and every other warning (deprecations, user warnings) is an error too: a command that works must not warn
            warnings.simplefilter("error")
            old = numpy.seterr(divide="raise", invalid="raise", over="ignore", under="ignore")
        else:
            old = numpy.seterr(all="ignore")
        try:
            r = cmd.execute(**kwargs)
            out.update(status="ok", result=r, vis=common.vis_arr(r))
        except MPilotError as e:
            ln = getattr(e, "lineno", None)
            if ln is None:
                ref = "none"
            elif ln == CMD_LINE:
                ref = "cmd"
            elif ARG_LINE0 <= ln < ARG_LINE0 + len(arg_names):
                ref = "arg:" + arg_names[ln - ARG_LINE0]
            else:
                ref = "line:%r" % (ln,)
            try:
                text = str(e)
            except Exception as e2:  # noqa
                text = None
                out["str_error"] = type(e2).__name__
            out.update(status="err", kind="mp", cls=type(e).__name__, ref=ref, text=text)
            if hasattr(e, "shape_a") or hasattr(e, "shape_b"):
                out["named_shapes"] = (getattr(e, "shape_a", None), getattr(e, "shape_b", None))       # what a shape error says about the offenders (not the exception itself: its traceback holds the arrays)
        except Exception as e:
            out.update(status="err", kind="raw", cls=type(e).__name__, ref="none", text=str(e))
        finally:
            numpy.seterr(**old)
    return out


ARRLIB = "mpverif_arrays"
ARRLIB_SRC = '''
from mpilot import params
from mpilot.commands import Command

HOLD = {}     # result name -> the array the command hands out
FAIL = {}     # result name -> "mp" | "raw": the command fails (a missing file, a broken plug-in) until the entry is removed


def _maybe_fail(cmd):
    how = FAIL.get(cmd.result_name)
    if how == "mp":
        from mpilot.exceptions import ProgramError
        raise ProgramError(cmd.lineno, "input not available (deliberate)")
    if how == "raw":
        raise IOError("input not available (deliberate)")


class HeldData(Command):
    """a finished-looking producer of non-fuzzy data: returns the array held for its result name"""
    inputs = {}
    output = params.DataParameter()

    def execute(self, **kw):
        _maybe_fail(self)
        return HOLD[self.result_name]


class HeldFuzzy(Command):
    """the same, declared fuzzy"""
    is_fuzzy = True
    inputs = {}
    output = params.DataParameter()

    def execute(self, **kw):
        _maybe_fail(self)
        return HOLD[self.result_name]
'''


def arrays_lib():
    import sys, types
    if ARRLIB in sys.modules:
        return sys.modules[ARRLIB]
    m = types.ModuleType(ARRLIB)
    sys.modules[ARRLIB] = m
    exec(compile(ARRLIB_SRC, ARRLIB, "exec"), m.__dict__)
    return m


DERLIB = "mpverif_derived"
DERLIB_SRC = '''
from mpilot import params
from mpilot.libraries.eems import basic, fuzzy

HOLD = {}     # result name -> the array the command hands out


def _held(base):
    """a user command that extends the built-in command `base` (to inherit its flags and documentation) and hands out whatever its author computes"""
    def execute(self, **kw):
        return HOLD[self.result_name]
    return type(base)("HeldAs" + base.__name__, (base,), {"__module__": __name__, "__doc__": "plug-in derived from " + base.__name__, "inputs": {},
                                                        "output": params.DataParameter(), "execute": execute})


def _boosted(base):
    """a user command that post-processes the result of the built-in command it extends (a contrast stretch): what it returns is its own business"""
    def execute(self, **kw):
        gain, shift = kw.pop("Gain"), kw.pop("Shift", 0)
        return super(cls, self).execute(**kw) * gain + shift
    inputs = dict((k, v) for k, v in base.inputs.items() if k != "Metadata")
    inputs["Gain"] = params.NumberParameter()
    inputs["Shift"] = params.NumberParameter(required=False)
    cls = type(base)("Boosted" + base.__name__, (base,), {"__module__": __name__, "__doc__": "plug-in derived from " + base.__name__, "inputs": inputs,
                                                         "output": params.DataParameter(), "execute": execute})
    return cls


HELD, BOOSTED = {}, {}
for _mod in (basic, fuzzy):
    for _name in %r:
        _base = getattr(_mod, _name, None)
        if _base is not None and _base.__module__ == _mod.__name__:
            HELD[_name] = _held(_base)
            BOOSTED[_name] = _boosted(_base)
''' % (sorted(COMMANDS),)


def derived_lib():
    """plug-in classes DERIVED from the built-in data commands (a user library that extends CvtToFuzzy, FuzzyOr, Sum ...): to every consumer they are
    commands like any other - what they hand out need not have the properties of what the built-in command returns"""
    import sys, types
    if DERLIB in sys.modules:
        return sys.modules[DERLIB]
    m = types.ModuleType(DERLIB)
    sys.modules[DERLIB] = m
    exec(compile(DERLIB_SRC, DERLIB, "exec"), m.__dict__)
    return m


def derived_producer(base, arr, name):
    """a finished command of the plug-in class derived from the built-in command `base`, holding `arr` as its result"""
    lib = derived_lib()
    cmd = lib.HELD[base](name, [], program=None, lineno=CMD_LINE - 1)
    lib.HOLD[name] = arr
    cmd._result = arr
    cmd._arr = arr
    cmd.is_finished = True
    return cmd


def _np_scalar(rng, v):
    """the same number as a numpy scalar of some width (what an API caller may pass), when it is exactly representable there"""
    if isinstance(v, bool) or not isinstance(v, (int, float)):
        return v
    for t in rng.sample([numpy.float32, numpy.float64, numpy.float16, numpy.int32, numpy.int64], 5):
        try:
            w = t(v)
        except (OverflowError, ValueError):
            continue
        if float(w) == float(v) and isinstance(v, float) == (not numpy.issubdtype(t, numpy.integer)):     # floats stay floats, ints stay ints
            return w
    return v


def run_pipeline(case, producers_first=True, rng=None, whole_run=False, program=None, tag="", fault=None, derived=None):
    """The same case through the whole pipeline: a Program whose producer commands hand out the input arrays, the command under test added
    with its arguments as the parser would deliver them (numbers, words, ListArguments), evaluated through `.result` - i.e. through
    `Command.run`, `validate_params` and every parameter cleaner.  Returns a dict like run_impl; raw exceptions raised inside the body arrive
    wrapped (`kind` = "unexpected")."""
    from collections import OrderedDict
    from mpilot.program import Program
    from mpilot.arguments import Argument, ListArgument
    from mpilot.exceptions import MPilotError, UnexpectedError
    lib = arrays_lib()
    if program is None:
        lib.HOLD.clear()
    libname, how, pmap = COMMANDS[case.cmd]
    cls = command_class(case.cmd)
    fuzzy_in = case.cmd in FUZZY_CONSUMERS
    first = {}
    for i, a in enumerate(case.inputs):
        first.setdefault(id(a), i)
    copies = {i: case.inputs[i].copy() for i in set(first.values())}
    inputs = [copies[first[id(a)]] for a in case.inputs]
    names = ["I%s%d" % (tag, first[id(a)]) for a in case.inputs]
    p = program if program is not None else new_pipeline_program()
    for i in sorted(copies):
        if derived is not None:
            # derived = a built-in command name: the producers are commands of a plug-in class derived from that command (they hand out the same arrays)
            derived_lib().HOLD["I%s%d" % (tag, i)] = copies[i]
            p.add_command(derived_lib().HELD[derived], "I%s%d" % (tag, i), OrderedDict())
            continue
        lib.HOLD["I%s%d" % (tag, i)] = copies[i]
        p.add_command(lib.HeldFuzzy if fuzzy_in else lib.HeldData, "I%s%d" % (tag, i), OrderedDict())
    args = OrderedDict()
    if how == "one":
        args["InFieldName"] = Argument("InFieldName", names[0], ARG_LINE0)
    elif how == "ab":
        args["A"] = Argument("A", names[0], ARG_LINE0)
        args["B"] = Argument("B", names[1], ARG_LINE0 + 1)
    else:
        args["InFieldNames"] = ListArgument("InFieldNames", list(names), ARG_LINE0, [ARG_LINE0] * len(names))
    np_params = rng is not None and rng.random() < 0.25
    used = {}
    for k in pmap:
        if k in case.params:
            v = case.params[k]
            if np_params:
                v = [_np_scalar(rng, x) for x in v] if isinstance(v, (list, tuple)) else _np_scalar(rng, v)
            used[k] = v
            args[k] = ListArgument(k, list(v), ARG_LINE0 + 5, [ARG_LINE0 + 5] * len(v)) if isinstance(v, (list, tuple)) else Argument(k, v, ARG_LINE0 + 5)
    out = {"inputs_after": inputs, "program": p, "np_params": np_params, "params_used": used}
    with warnings.catch_warnings():
        warnings.simplefilter("ignore")
        old = numpy.seterr(all="ignore")
        try:
            p.add_command(cls, "R" + tag, args, lineno=CMD_LINE)
            if fault is not None:
                # one input cannot be produced at first (fault = (how, which input, through run() or .result)): the evaluation fails with an MPilot error;
                # then the cause is removed and the SAME program and commands are evaluated again
                how_, which_, via_run = fault[:3]
                bad = "I%s%d" % (tag, sorted(copies)[which_ % len(copies)])
                if how_ == "shape":
                    # the first listed input arrives on another grid (same number of cells): MixedArrayShapes; then that producer is replaced by one with the right grid
                    bad = names[0]
                    good_arr = lib.HOLD[bad]
                    lib.HOLD[bad] = good_arr.reshape(fault[3])
                else:
                    lib.FAIL[bad] = how_
                try:
                    if via_run:
                        p.run()
                    else:
                        p.commands["R" + tag].result
                    out["fault_outcome"] = "no error"
                except MPilotError as e:
                    out["fault_outcome"] = "mp"
                except Exception as e:
                    out["fault_outcome"] = "raw:" + type(e).__name__
                finally:
                    lib.FAIL.clear()
                if how_ == "shape":
                    del p.commands[bad]
                    lib.HOLD[bad] = good_arr
                    p.add_command(lib.HeldFuzzy if fuzzy_in else lib.HeldData, bad, OrderedDict())
            if producers_first:
                for i in sorted(copies):
                    p.commands["I%s%d" % (tag, i)].result
            if whole_run:
                p.run()
            r = p.commands["R" + tag].result
            out.update(status="ok", result=r, vis=common.vis_arr(r))
        except UnexpectedError as e:
            out.update(status="err", kind="unexpected", cls=type(e.exc).__name__, ref="none", text=str(e.exc)[:200])
        except MPilotError as e:
            out.update(status="err", kind="mp", cls=type(e).__name__, ref="none", text=None)
        except Exception as e:
            out.update(status="err", kind="raw", cls=type(e).__name__, ref="none", text=str(e)[:200])
        finally:
            numpy.seterr(**old)
    return out


def new_pipeline_program():
    from mpilot.program import Program
    arrays_lib()
    derived_lib()
    return Program(libraries=("mpilot.libraries.eems.basic", "mpilot.libraries.eems.fuzzy", ARRLIB, DERLIB))


def pipeline_differs(direct, piped):
    """None if the outcome through the pipeline is the outcome of the body on the same arguments"""
    if direct["status"] == "ok":
        return _same(direct, piped) if piped["status"] == "ok" else "body returns %s, through Program/Command.run: %s %s" % (
            impl_summary(direct)[:50], piped.get("kind"), piped.get("cls"))
    if piped["status"] == "ok":
        return "body raises %s, through Program/Command.run a result is returned" % direct["cls"]
    if direct["kind"] == "mp":
        return None if (piped["kind"] == "mp" and piped["cls"] == direct["cls"]) else "body raises %s, pipeline %s %s" % (direct["cls"], piped["kind"], piped["cls"])
    # a raw exception of the body must arrive wrapped
    return None if piped["kind"] in ("unexpected", "mp") else "raw %s escapes from Command.run" % piped["cls"]


def impl_summary(out):
    if out["status"] == "ok":
        k, dt, sh, vals = out["vis"]
        return "ok %s %s %r %r" % (k, dt, sh, vals)
    return "err %s %s %s" % (out["kind"], out["cls"], out["ref"])


def compare(out, answer, tol=common.TOL):
    """None if implementation outcome and model answer agree, else a description"""
    if answer.startswith("ok "):
        if out["status"] != "ok":
            return "implementation raised %s %s, model returns a result" % (out["kind"], out["cls"])
        return common.same_vis(out["vis"], common.parse_model_arr(answer[3:]), tol)
    if answer.startswith("err "):
        parts = answer.split(" ")
        if out["status"] == "ok":
            return "implementation returned a result, model: %s" % answer
        if parts[1] == "mp":
            if out["kind"] != "mp" or out["cls"] != parts[2]:
                return "implementation raised %s %s, model: %s" % (out["kind"], out["cls"], answer)
            if out["ref"] != parts[3]:
                return "error line refers to %s, model: %s" % (out["ref"], parts[3])
            return None
        if parts[1] == "raw":
            if out["kind"] != "raw":
                return "implementation raised %s %s, model: %s" % (out["kind"], out["cls"], answer)
            return None           # class of a raw Python exception is not compared (it is wrapped as UnexpectedError)
    return "model answered %r" % answer



# ---------------------------------------------------------------- exactness on dyadic inputs

# Commands whose body, on inputs and parameters that are small binary fractions, performs only operations that are exact in binary64 (sums, differences,
# products of few-bit values, comparisons, selection) plus at most ONE division, which comes last or is followed by exact steps only.  IEEE division is
# correctly rounded, so such a body returns the exact value of its definition whenever that value is itself a binary fraction.  A result that is an ulp
# off there means roundings were added (a reciprocal multiplied in, a division per term, a re-associated sum) - which is what breaks the exact claims of
# the properties: results inside [-1, +1], And <= Union <= Or (a mean of equal values IS that value), thresholds mapped to exactly +1 / -1, the same result
# for every ordering of the inputs.
EXACT_CMDS = {"Sum", "WeightedSum", "Multiply", "AMinusB", "ADividedByB", "Minimum", "Maximum", "Mean", "WeightedMean", "Copy",
              "FuzzyOr", "FuzzyAnd", "FuzzyNot", "FuzzyUnion", "FuzzyWeightedUnion", "FuzzySelectedUnion", "CvtToFuzzy", "CvtFromFuzzy", "CvtToBinary",
              "CvtToFuzzyCat", "NormalizeCat"}


def _small_dyadic(fr, max_den=1 << 12, max_num=1 << 24):
    d = fr.denominator
    return d & (d - 1) == 0 and d <= max_den and abs(fr.numerator) <= max_num


def _num_small_dyadic(v):
    if isinstance(v, bool):
        return True
    if isinstance(v, int):
        return abs(v) <= 1 << 20
    if isinstance(v, float):
        return v == v and abs(v) != float("inf") and _small_dyadic(Fraction(v), 1 << 8, 1 << 16)
    if isinstance(v, (list, tuple)):
        return all(_num_small_dyadic(x) for x in v)
    return True            # words


def dyadic_case(case):
    """every visible value and every numeric parameter is a binary fraction of a few bits (the lattice generators produce such cases)"""
    if case.cmd not in EXACT_CMDS or len(case.inputs) > 8:
        return False
    for a in case.inputs:
        if a.dtype not in (numpy.float64, numpy.int64):
            return False
        vis = numpy.ma.getdata(a)[~numpy.ma.getmaskarray(a)]
        if vis.size and not all(_num_small_dyadic(x) for x in vis.ravel().tolist()):
            return False
    return all(_num_small_dyadic(v) for v in case.params.values())


def exact_mismatch(case, out, answer):
    """None, or the first cell whose exact value is a small binary fraction and which the implementation does not return exactly"""
    if out["status"] != "ok" or not answer.startswith("ok ") or out["vis"][3] is None or not dyadic_case(case):
        return None
    mvals = common.parse_model_arr(answer[3:])[2]
    for i, (a, b) in enumerate(zip(out["vis"][3], mvals)):
        if a is None or b is None:
            continue
        if _small_dyadic(b) and float(a) != float(b):
            return "cell %d: %r, the exact value is %s = %r (all inputs and parameters are binary fractions; only exactly representable steps and one correctly rounded division are needed)" % (i, a, b, float(b))
    return None

# ---------------------------------------------------------------- generators

QUARTERS = [Fraction(n, 4) for n in range(-8, 9)]          # -2 .. 2
FUZZY_LATTICE = [Fraction(n, 4) for n in range(-4, 5)]      # -1 .. 1
INTS = list(range(-3, 6))
PAYLOADS = [1e20, -1e20, 0.0, 1.0, -1.0, 0.5, 7.0, -9999.0, 3.0, 1.7976931348623157e+308, -1.7976931348623157e+308, 1e200]
SHAPES = [(1,), (2,), (3,), (4,), (5,), (7,), (1, 1), (1, 3), (2, 2), (3, 1), (2, 3), (1, 1, 1), (2, 1, 2), (1, 2, 3), (2, 2, 2)]


def rand_shape(rng, max_rank=3):
    s = rng.choice(SHAPES)
    while len(s) > max_rank:
        s = rng.choice(SHAPES)
    return s


def unit_axis_variants(shape):
    """shapes with the same cells that differ from `shape` only by length-1 axes, plus broadcast-compatible ones"""
    core = tuple(d for d in shape if d != 1) or (1,)
    out = set()
    for i in range(len(core) + 1):
        out.add(core[:i] + (1,) + core[i:])
    out.add(core)
    out.add((1,))
    if len(core) == 1:
        out.add((core[0], 1)); out.add((1, core[0])); out.add((core[0], core[0]))
    out.discard(tuple(shape))
    return sorted(out)


def rand_mask(rng, n, style=None):
    style = style or rng.choice(["none", "none", "one", "some", "some", "most"])
    if style == "none":
        return [False] * n
    if style == "one":
        m = [False] * n
        m[rng.randrange(n)] = True
        return m
    if style == "all":
        return [True] * n
    p = 0.3 if style == "some" else 0.7
    m = [rng.random() < p for _ in range(n)]
    if all(m) and n > 0:            # keep at least one valid cell unless "all" was asked for
        m[rng.randrange(n)] = False
    return m


def make_array(vals, mask, shape, dtype, rng=None, payloads=True):
    """masked array with the given visible values; hidden payloads adversarial"""
    data = []
    for v, m in zip(vals, mask):
        if m and payloads and rng is not None:
            p = rng.choice(PAYLOADS + [float(x) for x in vals[:3]])
            data.append(int(p) if dtype == int and abs(p) < 1e9 else (p if dtype == float else 77))
        else:
            data.append(v)
    if rng is not None and not any(mask) and rng.random() < 0.3:
        # nothing missing and no mask array at all (numpy's scalar `nomask`), as many operators and plain conversions deliver it
        return numpy.ma.array(numpy.array(data, dtype=dtype).reshape(shape))
    a = numpy.ma.array(numpy.array(data, dtype=dtype).reshape(shape), mask=numpy.array(mask, dtype=bool).reshape(shape))
    return a


def rand_array(rng, shape, dtype=float, lattice=None, mask_style=None):
    n = int(numpy.prod(shape))
    tiny = lattice is None and dtype == float and rng.random() < 0.15
    if lattice is None:
        lattice = INTS if dtype == int else QUARTERS
    vals = [dtype(rng.choice(lattice)) for _ in range(n)]
    if tiny:
        # nonzero values far below any "approximately zero" tolerance: zero tests must be exact
        for k in range(n):
            if rng.random() < 0.3:
                vals[k] = rng.choice([2.0 ** -30, -2.0 ** -30, 2.0 ** -40, -2.0 ** -36])
    r = rng.random()
    if r < 0.04:
        vals = sorted(vals)                       # data that happens to be sorted, reverse-sorted, constant, or to hold a negative zero
    elif r < 0.08:
        vals = sorted(vals, reverse=True)
    elif r < 0.11:
        vals = [vals[0]] * n
    elif r < 0.14 and dtype == float:
        vals = [(-0.0 if v == 0 else v) for v in vals]
    return make_array(vals, rand_mask(rng, n, mask_style), shape, dtype, rng)


def rand_num(rng, ints=(-2, -1, 0, 1, 2, 3), fracs=(-1.5, -0.5, 0.25, 0.5, 0.75, 1.5, 2.5)):
    r = rng.random()
    if r < 0.1:
        return float(rng.choice(ints))       # a whole number written with a decimal point is still a float
    return rng.choice(ints) if r < 0.55 else rng.choice(fracs)


def distinct_nums(rng, n, pool):
    pool = list(pool)
    rng.shuffle(pool)
    out = []
    for p in pool:
        if all(p != q for q in out):
            out.append(p)
        if len(out) == n:
            break
    return out


CURVE_POOL = [-3, -2, -1.5, -1, -0.5, 0, 0.25, 0.5, 1, 1.5, 2, 3, 4]
VALUE_POOL = [-5, -2, -1, -0.75, -0.5, 0, 0.25, 0.5, 1, 1.5, 2, 5]


def gen_params(rng, cmd, inputs, style="valid"):
    """cleaned keyword parameters for `cmd`; style 'valid' mostly valid, 'wild' includes error branches"""
    wild = style == "wild"
    n = len(inputs)
    p = {}
    if cmd in ("WeightedSum", "WeightedMean", "FuzzyWeightedUnion"):
        m = n if not wild or rng.random() < 0.7 else max(0, n + rng.choice([-1, 1]))
        pool = [1, 2, 3, 0.5, 0.25, 1.5, 0, -1, -0.5, 2.0, 1.0, 3.0] if cmd != "WeightedSum" or rng.random() < 0.6 else [1, 2, 3, -1, 0]
        p["Weights"] = [rng.choice(pool) for _ in range(m)]
        if m and rng.random() < 0.3:
            p["Weights"][rng.randrange(m)] = 1      # neutral weights invite short-cuts
    elif cmd == "Normalize":
        if rng.random() < 0.6:
            p["StartVal"] = rand_num(rng)
        if rng.random() < 0.6:
            p["EndVal"] = rand_num(rng)
    elif cmd in ("NormalizeZScore", "CvtToFuzzyZScore"):
        if rng.random() < 0.6:
            p["TrueThresholdZScore"] = rand_num(rng)
        if rng.random() < 0.6:
            p["FalseThresholdZScore"] = rand_num(rng)
        if cmd == "NormalizeZScore":
            if rng.random() < 0.5:
                p["StartVal"] = rand_num(rng)
            if rng.random() < 0.5:
                p["EndVal"] = rand_num(rng)
    elif cmd in ("NormalizeCat", "CvtToFuzzyCat"):
        k = rng.randrange(0, 5) if rng.random() < 0.9 else rng.randrange(9, 12)        # sometimes a long legend
        raws = distinct_nums(rng, k, [-3, -2, -1, 0, 1, 2, 3, 4, 5, 0.5, 1.0, 2.0, 6, 7, 8, 9, -4, 1.5, 2.5])
        if wild and k >= 1 and rng.random() < 0.2:
            raws.append(raws[0])
        vals = [rng.choice(VALUE_POOL) for _ in raws]
        if wild and rng.random() < 0.15:
            vals = vals[:-1] if vals else [1]
        p["RawValues"] = raws
        p["NormalValues" if cmd == "NormalizeCat" else "FuzzyValues"] = vals
        p["DefaultNormalValue" if cmd == "NormalizeCat" else "DefaultFuzzyValue"] = rng.choice(VALUE_POOL)
    elif cmd in ("NormalizeCurve", "CvtToFuzzyCurve"):
        k = (rng.randrange(1, 6) if not wild else rng.randrange(0, 6)) if rng.random() < 0.9 else rng.randrange(9, 13)     # sometimes many control points
        raws = distinct_nums(rng, k, CURVE_POOL)
        if wild and k >= 1 and rng.random() < 0.2:
            raws.append(raws[0])
        vals = [rng.choice(VALUE_POOL) for _ in raws]
        if wild and rng.random() < 0.15:
            vals = vals[:-1] if vals else [1]
        p["RawValues"] = raws
        p["NormalValues" if cmd == "NormalizeCurve" else "FuzzyValues"] = vals
    elif cmd in ("NormalizeMeanToMid", "CvtToFuzzyMeanToMid"):
        p["IgnoreZeros"] = rng.random() < 0.5
        k = 5 if not wild or rng.random() < 0.8 else rng.choice([0, 1, 2, 3, 4, 6])
        p["NormalValues" if cmd == "NormalizeMeanToMid" else "FuzzyValues"] = [rng.choice(VALUE_POOL) for _ in range(k)]
    elif cmd in ("NormalizeCurveZScore", "CvtToFuzzyCurveZScore"):
        k = rng.randrange(1, 5) if not wild else rng.randrange(0, 5)
        zs = distinct_nums(rng, k, [-2, -1, -0.5, 0, 0.5, 1, 2])
        if wild and k >= 1 and rng.random() < 0.2:
            zs.append(zs[0])
        vals = [rng.choice(VALUE_POOL) for _ in zs]
        if wild and rng.random() < 0.15:
            vals = vals[:-1] if vals else [1]
        p["ZScoreValues"] = zs
        p["NormalValues" if cmd == "NormalizeCurveZScore" else "FuzzyValues"] = vals
    elif cmd == "CvtToFuzzy":
        if rng.random() < 0.6:
            p["TrueThreshold"] = rand_num(rng)
        if rng.random() < 0.6:
            p["FalseThreshold"] = rand_num(rng)
        if rng.random() < 0.1:
            # the thresholds are the ends of the fuzzy range themselves (data already on a -1..1 scale): the map is the identity inside the range
            p["TrueThreshold"], p["FalseThreshold"] = rng.choice([(1, -1), (1.0, -1.0), (-1, 1)])
        r = rng.random()
        if r < 0.3:
            p["Direction"] = "LowToHigh"
        elif r < 0.6:
            p["Direction"] = "HighToLow"
        elif wild and r < 0.7:
            p["Direction"] = rng.choice(["Up", "", "lowtohigh"])
    elif cmd == "CvtToBinary":
        p["Threshold"] = rand_num(rng)
        p["Direction"] = rng.choice(["LowToHigh", "HighToLow"]) if not wild or rng.random() < 0.8 else rng.choice(["Up", "", "hightolow"])
    elif cmd == "FuzzySelectedUnion":
        p["TruestOrFalsest"] = rng.choice(["Truest", "Falsest"]) if not wild or rng.random() < 0.85 else rng.choice(["truest", "", "Both"])
        p["NumberToConsider"] = rng.randrange(1, n + 1) if n >= 1 and (not wild or rng.random() < 0.8) else n + rng.randrange(1, 3)
    elif cmd == "CvtFromFuzzy":
        p["TrueThreshold"] = rand_num(rng)
        p["FalseThreshold"] = rand_num(rng)
        if rng.random() < 0.1:
            p["TrueThreshold"], p["FalseThreshold"] = rng.choice([(1, -1), (1.0, -1.0)])
        if wild and rng.random() < 0.15:
            p["FalseThreshold"] = p["TrueThreshold"]
    return p


def gen_inputs(rng, cmd, shape=None, n=None, style="valid", dtypes=None, mask_style=None):
    lib, how, _ = COMMANDS[cmd]
    shape = shape or rand_shape(rng)
    fuzzy_in = cmd in FUZZY_CONSUMERS
    if how == "one":
        n = 1
    elif how == "ab":
        n = 2
    elif n is None:
        n = rng.choice([1, 2, 2, 3, 3, 4, 5]) if rng.random() < 0.93 else rng.choice([9, 12, 17])      # sometimes long input lists
        if cmd == "FuzzyXOr" and n < 2 and style != "wild":
            n = 2
    arrs = []
    tied = None
    if n >= 2 and rng.random() < 0.3:
        # inputs that agree in many cells (ties for the largest/smallest value, cells where every input is fully false/true,
        # saturated values): the cell-wise selection rules must not depend on the values being distinct
        ncell = int(numpy.prod(shape))
        tied = [rng.choice([-1, -1, 1, 1, 0, Fraction(1, 2), Fraction(-1, 2)]) for _ in range(ncell)]
    for i in range(n):
        if tied is not None and (fuzzy_in or not dtypes):
            lat = FUZZY_LATTICE if fuzzy_in else QUARTERS
            dt = float if fuzzy_in else (int if rng.random() < 0.3 else float)
            vals = [dt(t) if rng.random() < 0.65 else dt(rng.choice(lat)) for t in tied]
            arrs.append(make_array(vals, rand_mask(rng, len(vals), mask_style), shape, dt, rng))
        elif fuzzy_in and rng.random() < 0.12:
            arrs.append(rand_array(rng, shape, int, [-1, 0, 1], mask_style))          # crisp fuzzy values held in an integer array
        elif fuzzy_in:
            lat = FUZZY_LATTICE if style != "wild" or rng.random() < 0.8 else QUARTERS
            arrs.append(rand_array(rng, shape, float, lat, mask_style))
        else:
            dt = dtypes[i] if dtypes else (int if rng.random() < 0.4 else float)
            arrs.append(rand_array(rng, shape, dt, None, mask_style))
    if how != "one" and n >= 2 and rng.random() < 0.12:
        # the same field listed twice (one command object, one result array)
        i, j = rng.sample(range(n), 2)
        arrs[j] = arrs[i]
    if style == "wild" and how != "one" and n >= 2 and rng.random() < 0.12:
        # a different shape: unrelated, or differing only by length-1 axes (numpy would broadcast it silently)
        other = rand_shape(rng) if rng.random() < 0.4 else rng.choice(unit_axis_variants(shape))
        arrs[rng.randrange(n)] = rand_array(rng, other, float, FUZZY_LATTICE if fuzzy_in else None)
        if n >= 3 and rng.random() < 0.5:
            # and a second one of yet another shape
            arrs[rng.randrange(n)] = rand_array(rng, rand_shape(rng), float, FUZZY_LATTICE if fuzzy_in else None)
    if style == "wild" and how == "list" and rng.random() < 0.03:
        arrs = []
    return arrs


def _isqrt_frac(q):
    """exact square root of a Fraction if it is a perfect square, else None"""
    import math
    a, b = q.numerator, q.denominator
    if a < 0:
        return None
    ra, rb = math.isqrt(a), math.isqrt(b)
    return Fraction(ra, rb) if ra * ra == a and rb * rb == b else None


def near_discontinuity(case):
    """True when exact and floating evaluation may legitimately take different branches: some cell lies within
    1e-9 of a data-derived control point (z-score curve points, mean-to-mid statistics) and that control point is
    not computed exactly by numpy.  Such cases are skipped and counted in the evidence; ties that both sides
    compute exactly (dyadic statistics, rational standard deviation) are kept."""
    cmd = case.cmd
    curve_z = cmd in ("NormalizeCurveZScore", "CvtToFuzzyCurveZScore")
    m2m = "MeanToMid" in cmd
    if cmd in ZSCORE and case.inputs:
        # a (nearly) constant array: the exact standard deviation is 0 (everything undefined) while numpy's rounded one may be
        # a few ulps above 0 (everything defined and clamped) - a discontinuity of the mathematical function itself
        v = [float(x) for x in case.inputs[0].compressed().tolist()]
        if v:
            fstd = float(numpy.ma.std(case.inputs[0]))
            fmean = float(numpy.ma.mean(case.inputs[0]))
            if (min(v) == max(v)) != (fstd == 0.0) or (0.0 < fstd < 1e-9 * max(1.0, abs(fmean))):
                return True
    if not (curve_z or m2m):
        return False
    a = case.inputs[0]
    fvals = [float(v) for v in a.compressed().tolist()]
    if not fvals:
        return False
    ex = [Fraction(v) for v in fvals]
    pts_f, pts_x = [], []
    if curve_z:
        mean_x = sum(ex) / len(ex)
        var_x = sum((x - mean_x) ** 2 for x in ex) / len(ex)
        std_x = _isqrt_frac(var_x)
        mean_f = float(numpy.ma.mean(a)); std_f = float(numpy.ma.std(a))
        zs = case.params.get("ZScoreValues", [])
        pts_f = [mean_f + z * std_f for z in zs]
        exact = std_x is not None and Fraction(std_f) == std_x and Fraction(mean_f) == mean_x and std_x.denominator <= 2 ** 20
        if exact:
            pts_x = [mean_x + Fraction(z) * std_x for z in zs]
            exact = all(Fraction(f) == x for f, x in zip(pts_f, pts_x))
    else:
        vs = [v for v in ex if v != 0] if case.params.get("IgnoreZeros") else ex
        if not vs:
            return False
        m = sum(vs) / len(vs)
        lo = [v for v in vs if v <= m]
        hi = [v for v in vs if v > m]
        pts_x = [m] + ([sum(lo) / len(lo)] if lo else []) + ([sum(hi) / len(hi)] if hi else [])
        # the same statistics as numpy computes them (float summation and division)
        arr = a[a != 0] if case.params.get("IgnoreZeros") else a
        with warnings.catch_warnings():
            warnings.simplefilter("ignore")
            fm = arr.mean()
            flo = arr[arr <= fm].compressed()
            fhi = arr[arr > fm].compressed()
            pts_f = [float(fm)] + ([float(flo.mean())] if flo.size else []) + ([float(fhi.mean())] if fhi.size else [])
        exact = len(pts_f) == len(pts_x) and all(Fraction(f) == x for f, x in zip(pts_f, pts_x))
        if exact:
            pts_x = pts_x + [min(ex), max(ex)]
    if exact:
        return False
    allp = pts_f + [min(fvals), max(fvals)]
    if curve_z and any(abs(v - pnt) < 1e-9 * max(1.0, abs(pnt)) for v in fvals for pnt in pts_f):
        # a cell AT a curve point whose position is not computed exactly (the model's root is a 20-digit rational): with coinciding ZScoreValues the curve
        # jumps there, and the two sides may land on different sides of the jump - also when the cell is the field's minimum / maximum (found by the
        # thorough tier, seed 1: [-1.5, -2^-36] with ZScoreValues [1, 1])
        return True
    for v in fvals:
        for pnt in allp:
            if abs(v - pnt) < 1e-9 * max(1.0, abs(pnt)) and not (v == pnt and pnt in (min(fvals), max(fvals))):
                return True
    for x, y in itertools.combinations(allp, 2):
        if x != y and abs(x - y) < 1e-9 * max(1.0, abs(x)):
            return True
    return False


def gen_case(rng, cmd, style="valid", **kw):
    inputs = gen_inputs(rng, cmd, style=style, **kw)
    return Case(cmd, gen_params(rng, cmd, inputs, style), inputs)


LONG_TABLE_SHAPES = [(24,), (36,), (4, 6), (6, 6), (24, 1), (1, 30), (2, 3, 4), (3, 1, 12), (2, 2, 9)]


def long_table_cases(rng, lengths=(40, 100, 300, 1000), curves=(60, 200)):
    """directed: category tables (and curves) with tens to a thousand entries, listed in no particular order, whole numbers and fractions, ints and floats mixed,
    on vectors and on grids of rank 2 and 3 (with length-1 axes), most cells holding a listed code, some an unlisted one, some missing: every cell gets the value
    listed for ITS code whatever the length of the table and the shape of the grid (a body may switch to a sorted / hashed / vectorised look-up for long tables)"""
    cases = []
    for n in lengths:
        for cmd in ("NormalizeCat", "CvtToFuzzyCat"):
            fz = cmd == "CvtToFuzzyCat"
            for rank in (1, 2, 3):
                whole = rank != 2 and rng.random() < 0.5            # a table of whole numbers only (held in an integer grid), or one with halves among them
                pool = list(range(-n // 3, 2 * n)) + ([] if whole else [k + 0.5 for k in range(0, n, 3)])
                codes = rng.sample(pool, n)
                listed = rng.choice(["shuffled", "descending", "nearly-ascending"])
                if listed == "descending":
                    codes.sort(reverse=True)
                elif listed == "nearly-ascending":
                    codes.sort()
                    i, j = rng.sample(range(n), 2)
                    codes[i], codes[j] = codes[j], codes[i]
                # whole codes written with a decimal point now and then (7.0 is the code 7)
                codes = [float(c) if isinstance(c, int) and not whole and rng.random() < 0.2 else c for c in codes]
                # every code its own value (a neighbour's value is a different number), binary fractions; the fuzzy table reaches beyond the fuzzy range
                step = 1.0 / 64
                vals = [((k * 37) % n) * step - (1.25 if fz else 3) for k in range(n)]
                vals = [int(v) if v == int(v) and rng.random() < 0.3 else v for v in vals]
                shape = rng.choice([s for s in LONG_TABLE_SHAPES if len(s) == rank])
                ncell = int(numpy.prod(shape))
                unlisted = [c for c in ([-n, 3 * n, 0.25, n + 0.75] + pool[:40]) if c not in set(codes)]
                if whole:
                    unlisted = [c for c in unlisted if float(c) == int(c)] or [-n - 1]
                cells = [rng.choice(codes) if rng.random() < 0.85 else rng.choice(unlisted) for _ in range(ncell)]
                cells[0], cells[-1] = codes[0], codes[-1]
                dt = int if whole else float
                mask = rand_mask(rng, ncell, rng.choice(["one", "some", "none"]))
                arr = numpy.ma.array(numpy.array([dt(c) for c in cells], dtype=dt).reshape(shape), mask=numpy.array(mask, dtype=bool).reshape(shape))
                p = {"RawValues": codes, "FuzzyValues" if fz else "NormalValues": vals, "DefaultFuzzyValue" if fz else "DefaultNormalValue": rng.choice([0, -0.5, 0.75])}
                cases.append(Case(cmd, p, [arr]))
    for n in curves:
        for cmd in ("NormalizeCurve", "CvtToFuzzyCurve"):
            fz = cmd == "CvtToFuzzyCurve"
            xs = rng.sample(range(-n, 3 * n), n)                    # control points in no particular order, whole numbers: cells on them and half-way between them
            ys = [((k * 29) % 64) / 32.0 - (1.25 if fz else 1) for k in range(n)]
            shape = rng.choice(LONG_TABLE_SHAPES)
            ncell = int(numpy.prod(shape))
            srt = sorted(xs)
            cells = [float(rng.choice(xs)) if rng.random() < 0.4 else (srt[i] + srt[i + 1]) / 2.0 for i in [rng.randrange(n - 1) for _ in range(ncell)]]
            cells[0], cells[-1] = float(srt[0] - 2), float(srt[-1] + 2)
            mask = rand_mask(rng, ncell, rng.choice(["one", "some", "none"]))
            arr = numpy.ma.array(numpy.array(cells).reshape(shape), mask=numpy.array(mask, dtype=bool).reshape(shape))
            cases.append(Case(cmd, {"RawValues": xs, "FuzzyValues" if fz else "NormalValues": ys}, [arr]))
    return cases


BIG_FORMS = ("mask", "nomask", "plain")


def big_field(nr, shape, form, lattice=8, dtype=float, missing=0.03, zeros=None):
    """a field of up to millions of cells (numpy generator `nr`) holding quarters in [-lattice/4, lattice/4] (ints: whole numbers), as a masked array with a mask
    array and missing cells ("mask"), a masked array without a mask array ("nomask") or a plain ndarray - what a plug-in command may return ("plain").
    (A random block of some fifty thousand cells, of an odd length that lines up with no row of the grids used, repeated: drawing millions of random cells costs more than running the command)"""
    cells = int(numpy.prod(shape))

    def rep(block):
        return numpy.resize(block, cells).reshape(shape)
    blk = 49999 + 2 * nr.randint(0, 40)
    d = nr.randint(-lattice, lattice + 1, size=blk)
    d = d.astype(numpy.int64) if dtype == int else d / 4.0
    if zeros is not None:
        d[nr.rand(blk) < zeros] = 0
    d = rep(d)
    if form == "mask":
        return numpy.ma.array(d, mask=rep(nr.rand(blk + 2) < missing))
    if form == "falsemask":
        return numpy.ma.array(d, mask=numpy.zeros(shape, dtype=bool))          # a mask array in which nothing is missing (what a reader delivers)
    return numpy.ma.array(d) if form == "nomask" else d


def field_changed(before, after):
    """None, or how `after` (the array a producer holds after a consumer ran) differs from `before` = (type, dtype, shape, mask copy, data copy): exact comparison"""
    t, dt, sh, m0, d0 = before
    if type(after) is not t:
        return "kind %s -> %s" % (t.__name__, type(after).__name__)
    if after.dtype != dt or after.shape != sh:
        return "element type / shape %s %r -> %s %r" % (dt, sh, after.dtype, after.shape)
    m1, d1 = numpy.ma.getmaskarray(after), numpy.ma.getdata(after)
    if not numpy.array_equal(m0, m1):
        return "missing cells changed (%d -> %d missing)" % (int(m0.sum()), int(m1.sum()))
    if numpy.array_equal(d0, d1):          # (the common case, decided without building index arrays of millions of cells)
        return None
    keep = ~m0
    if not numpy.array_equal(d0[keep], d1[keep]):
        with numpy.errstate(all="ignore"):
            i = int(numpy.flatnonzero((d0 != d1).ravel() & keep.ravel())[0])
        return "value of cell %d: %r -> %r" % (i, d0.ravel()[i].item(), d1.ravel()[i].item())
    return None


def field_snapshot(a):
    return (type(a), a.dtype, a.shape, numpy.ma.getmaskarray(a).copy(), numpy.ma.getdata(a).copy())


def execute_on(cmd, params, arrays, fuzzy=None):
    """the real `execute` on the very arrays given (masked or plain, no copies, nothing rendered cell by cell): for fields of millions of cells.
    Returns ("ok", result) or ("err", exception)"""
    lib, how, pmap = COMMANDS[cmd]
    fuzzy_in = cmd in FUZZY_CONSUMERS if fuzzy is None else fuzzy
    ids = {}
    prods = [ids.setdefault(id(a), Producer(a, "I%d" % i, fuzzy_in)) for i, a in enumerate(arrays)]
    kwargs = dict(params)
    if how == "one":
        kwargs["InFieldName"] = prods[0]
    elif how == "ab":
        kwargs["A"], kwargs["B"] = prods[0], prods[1]
    else:
        kwargs["InFieldNames"] = list(prods)
    obj = command_class(cmd)("R", [], program=None, lineno=CMD_LINE)
    with warnings.catch_warnings():
        warnings.simplefilter("ignore")
        old = numpy.seterr(all="ignore")
        try:
            return "ok", obj.execute(**kwargs)
        except Exception as e:      # noqa
            return "err", e
        finally:
            numpy.seterr(**old)


def gen_chains(rng, count, consumers=None, style="wild"):
    """cases whose inputs are the very arrays returned by real executions of other commands (two levels deep): whatever a result array
    carries besides its visible values (hidden numbers under missing cells, fill value, flags, attached attributes, shared buffers)
    reaches the consumer exactly as it does inside a running program"""
    consumers = consumers or [c for c in FUZZY_CONSUMERS if COMMANDS[c][1] != "ab"]
    cases = []
    tries = 0
    while len(cases) < count and tries < count * 6:
        tries += 1
        cons = rng.choice(consumers)
        lib, how, _ = COMMANDS[cons]
        fuzzy_in = cons in FUZZY_CONSUMERS
        n = 1 if how == "one" else 2 if how == "ab" else rng.choice([1, 2, 2, 3, 4])
        if cons == "FuzzyXOr":
            n = max(n, 2)
        shape = rand_shape(rng)
        pool = FUZZY_PRODUCERS if fuzzy_in else [c for c in COMMANDS if c not in FUZZY_PRODUCERS]
        ins = []
        for _ in range(n):
            r = None
            for _attempt in range(4):
                c1 = gen_case(rng, rng.choice(pool), style="valid", shape=shape, mask_style=rng.choice(["one", "some", "none"]))
                if rng.random() < 0.4 and c1.cmd in FUZZY_CONSUMERS:
                    # second level: feed a produced fuzzy array through another fuzzy operator first
                    pass
                o1 = run_impl(c1)
                if o1["status"] == "ok" and isinstance(o1["result"], numpy.ma.MaskedArray) and o1["result"].shape == tuple(shape):
                    r = o1["result"]
                    if rng.random() < 0.4:
                        mid = rng.choice(["FuzzyNot", "FuzzyOr", "FuzzyAnd", "FuzzyUnion"]) if fuzzy_in else "Copy"
                        o2 = run_impl(Case(mid, {}, [r]), copy_inputs=False)
                        if o2["status"] == "ok" and isinstance(o2["result"], numpy.ma.MaskedArray):
                            r = o2["result"]
                    break
            if r is None:
                break
            ins.append(r)
        if len(ins) != n:
            continue
        try:
            for a in ins:
                enc_arr(a)
        except common.NonFinite:
            continue
        cases.append(Case(cons, gen_params(rng, cons, ins, style), ins))
    return cases


def tile_twin(ctx, c, out, k):
    """the same field repeated k times over (thousands to a hundred thousand cells): every cell of the large result is the cell of the small one -
    minimum, maximum, mean and deviation of the repeated field are those of the field, and nothing depends on how large a grid is"""
    reps = (k,) + (1,) * (c.inputs[0].ndim - 1)
    ids = {}
    ins = [ids.setdefault(id(a), numpy.ma.array(numpy.tile(numpy.ma.getdata(a), reps), mask=numpy.tile(numpy.ma.getmaskarray(a), reps))) for a in c.inputs]
    out6 = run_impl(Case(c.cmd, c.params, ins))
    ctx.count("tiled_field_twins")
    if out6["status"] != "ok":
        ctx.fail("%s: on the same field repeated %d times (%d cells) the command fails: %s" % (c.cmd, k, ins[0].size, impl_summary(out6)[:80]), dict(c.describe(), repeated=k))
        return
    v, w = out["vis"][3], out6["vis"][3]
    m = len(v)
    bad = [j for j in range(len(w)) if (w[j] is None) != (v[j % m] is None) or (w[j] is not None and abs(w[j] - v[j % m]) > 1e-9 * max(1.0, abs(v[j % m])))] \
        if w is not None and len(w) == m * k else [0]
    if getattr(out6.get("result"), "dtype", None) != getattr(out.get("result"), "dtype", None):
        ctx.fail("%s: on the same field repeated %d times (%d cells) the result has element type %s; on the small field %s" % (
            c.cmd, k, ins[0].size, getattr(out6.get("result"), "dtype", None), getattr(out.get("result"), "dtype", None)), dict(c.describe(), repeated=k))
    elif bad or out6["vis"][1] != out["vis"][1]:
        j = bad[0] if bad else 0
        ctx.fail("%s: on the same field repeated %d times (%d cells), cell %d is %r where the small field gives %r (element type %s / %s)" % (
            c.cmd, k, ins[0].size, j, w[j] if w is not None and j < len(w) else None, v[j % m], out6["vis"][1], out["vis"][1]), dict(c.describe(), repeated=k))


def huge_twin(ctx, c, out, cells=300000):
    """the same field repeated until it has some hundred thousand cells (beyond any block size, cache limit or fast-path threshold a body may have), in
    row-major and in column-major layout: the large result is the small one repeated, and the inputs are what they were"""
    a0 = c.inputs[0]
    k = cells // max(1, a0.size) + 1
    reps = (k,) + (1,) * (a0.ndim - 1)
    small = out["result"]
    want_d = numpy.tile(numpy.ma.getdata(small), reps)
    want_m = numpy.tile(numpy.ma.getmaskarray(small), reps)
    for layout in ("C", "F"):
        if layout == "F" and a0.ndim < 2:
            continue
        ids = {}

        def big(a):
            d, m = numpy.tile(numpy.ma.getdata(a), reps), numpy.tile(numpy.ma.getmaskarray(a), reps)
            if layout == "F":
                d, m = numpy.asfortranarray(d), numpy.asfortranarray(m)
            return numpy.ma.array(d, mask=m)
        ins = [ids.setdefault(id(a), big(a)) for a in c.inputs]
        before = [(numpy.ma.getdata(a).copy(), numpy.ma.getmaskarray(a).copy()) for a in ins]
        o = run_impl(Case(c.cmd, c.params, ins), copy_inputs=False)
        ctx.count("huge_field_twins")
        desc = dict(c.describe(), repeated=k, cells=int(ins[0].size), layout=layout)
        if o["status"] != "ok" or not isinstance(o.get("result"), numpy.ndarray):
            ctx.fail("%s: on the same field repeated %d times (%d cells, %s layout) the command fails: %s %s" % (c.cmd, k, ins[0].size, layout, o.get("kind"), o.get("cls")), desc)
            continue
        r = o["result"]
        rd, rm = numpy.ma.getdata(r), numpy.ma.getmaskarray(r)
        if r.shape != want_d.shape or r.dtype != small.dtype:
            ctx.fail("%s: on the same field repeated %d times (%d cells, %s layout) the result has shape %r and element type %s; repeating the small result gives %r, %s" % (
                c.cmd, k, ins[0].size, layout, r.shape, r.dtype, want_d.shape, small.dtype), desc)
            continue
        with numpy.errstate(all="ignore"):
            okv = numpy.isclose(rd, want_d, rtol=1e-9, atol=1e-9, equal_nan=True) | rm | want_m
        if not numpy.array_equal(rm, want_m) or not okv.all():
            j = int(numpy.flatnonzero((rm != want_m).ravel() | ~okv.ravel())[0])
            ctx.fail("%s: on the same field repeated %d times (%d cells, %s layout), cell %d is %s where the small field gives %s" % (
                c.cmd, k, ins[0].size, layout, j, "missing" if rm.ravel()[j] else repr(rd.ravel()[j].item()), "missing" if want_m.ravel()[j] else repr(want_d.ravel()[j].item())), desc)
            continue
        for i_, (a, (d0, m0)) in enumerate(zip(ins, before)):
            keep = ~m0
            if c.cmd in FUZZY_CONSUMERS:
                with numpy.errstate(all="ignore"):
                    keep = keep & (d0 >= -1) & (d0 <= 1)
            if not numpy.array_equal(numpy.ma.getmaskarray(a), m0) or not numpy.array_equal(numpy.ma.getdata(a)[keep], d0[keep]):
                ctx.fail("%s: on a field of %d cells (%s layout) the command changed its input no. %d (the stored result of another command)" % (c.cmd, ins[0].size, layout, i_), desc)
                break


def run_stream(ctx, model, cases, stream, tol=common.TOL, on_result=None, rerun=True, narrow=True, pipeline=True, layout=True, strict=True, payload=True, tile=True, exact=True, fault=True, plain=True, derived=True, fresh=True):
    """runs cases on implementation and model, records disagreements; calls on_result(case, out, answer)"""
    outs = []
    kept = []
    shared = [None, 0, []]    # one long-lived Program that many of the cases are added to, how many it holds, their protocol lines
    for c in cases:
        if near_discontinuity(c):
            ctx.count("skipped_near_discontinuity")
            continue
        kept.append(c)
    answers = model.ask([c.line() for c in kept])
    for c, ans in zip(kept, answers):
        out = run_impl(c)
        outs.append(out)
        trivial = out["status"] == "err" and out["kind"] == "raw"
        ctx.case(c.canonical(), nontrivial=not trivial, sample={"protocol": c.line()[:400], "impl": impl_summary(out)[:300], "model": ans[:300]})
        ctx.count("cmd:" + c.cmd)
        ctx.count("outcome:" + (out["status"] if out["status"] == "ok" else out["kind"] + ":" + out["cls"]))
        if ans.startswith("err raw Degenerate") or ans.startswith("err raw NotAdmissible"):
            ctx.count("outside_model_domain")
        else:
            d = compare(out, ans, tol)
            if d:
                ctx.disagree(stream, c.describe(), impl_summary(out), ans + " :: " + d)
                if ans.startswith("ok ") and out["status"] == "err" and out["kind"] == "raw":
                    # the command has a defined result for this input (the theorems of the property are about it) and the implementation crashes instead
                    ctx.fail("%s fails with %s (%s) on an input for which its result is defined: %s" % (c.cmd, out["cls"], str(out.get("text"))[:80], ans[:120]), c.describe())
            elif exact:
                d = exact_mismatch(c, out, ans)
                if d is not None:
                    ctx.fail("%s: not exact where the arithmetic needs no rounding - %s" % (c.cmd, d), c.describe())
                elif dyadic_case(c) and out["status"] == "ok":
                    ctx.count("exact_on_dyadic_inputs")
        if fresh and out["status"] == "ok" and c.inputs and not (c.cmd in HANDS_BACK_SINGLE and len(c.inputs) == 1):
            # a command "computes" its result: except for the four commands that hand a single input back as it is (Model/EemsHeap `aliases`), the result is a
            # value of its own - not the input field's array object and not a view of its values or of its missing-cell flags (a result that IS the input:
            # whoever masks or corrects a cell of the result afterwards rewrites the input field, and everything evaluated from it later).  Every command,
            # every number of inputs (a list of ONE field included), masked and plain inputs
            ctx.count("fresh_result_checks")
            d = result_shares(out)
            if d is None and c.inputs[0].size <= 4096 and not any(numpy.ma.getmaskarray(a).any() for a in c.inputs):
                outp = run_impl(c, plain=True)
                d = result_shares(outp) if outp["status"] == "ok" else None
                d = d and d + " (inputs handed over as plain ndarrays)"
            if d and c.cmd == "FuzzyNot" and d.startswith("the missing-cell flags"):
                # pinned tree: FuzzyNot is numpy's unary minus, which hands the mask array of its operand on to its result (values are new; masking a cell of the
                # result does mask the input's cell).  Outside the arithmetic commands C07 speaks of; counted and noted, not raised
                ctx.count("fresh_result_flags_shared_by_unary_minus")
                ctx.notes.setdefault("pinned_tree_facts", ["FuzzyNot: the result shares its missing-cell flags with the input (numpy unary minus)"])
                d = None
            if d:
                ctx.fail("%s over %d input(s): %s - the result is not an array of its own, editing or masking it in place changes the input field" % (c.cmd, len(c.inputs), d), c.describe())
        if rerun and out["status"] == "ok":
            # the same command over the very same input objects again (no copies in between) must give the same result:
            # a body that writes into an input array corrupts every later consumer of that input
            snap = [(numpy.ma.getmaskarray(a).copy(), numpy.ma.getdata(a).copy()) for a in c.inputs]
            first = run_impl(c, copy_inputs=False)
            second = run_impl(c, copy_inputs=False)
            ctx.count("rerun_twins")
            d = _same(first, second)
            if d:
                ctx.fail("%s: executing the command a second time over the same input arrays gives a different result (%s) - "
                         "the first execution modified its inputs" % (c.cmd, d), c.describe())
            else:
                for k, (a, (m0, d0)) in enumerate(zip(c.inputs, snap)):
                    m1 = numpy.ma.getmaskarray(a)
                    keep = ~m0
                    if c.cmd in FUZZY_CONSUMERS:
                        # an input declared fuzzy that holds values outside [-1, 1] is no result of any fuzzy command: limiting those in place is not held against the consumer
                        with numpy.errstate(all="ignore"):
                            keep = keep & (d0 >= -1) & (d0 <= 1)
                    if not numpy.array_equal(m0, m1) or not numpy.array_equal(d0[keep], numpy.ma.getdata(a)[keep]):
                        ctx.fail("%s: executing the command changed its input no. %d (the stored result of another command): missing cells %r -> %r, "
                                 "values %r -> %r" % (c.cmd, k, m0.astype(int).ravel().tolist(), m1.astype(int).ravel().tolist(),
                                                      d0[~m0].ravel().tolist()[:6], numpy.ma.getdata(a)[~m0].ravel().tolist()[:6]), c.describe())
                        # restore, so that the twins below see the case as generated
                        for b, (mm, dd) in zip(c.inputs, snap):
                            b.mask = mm.copy()
                            numpy.ma.getdata(b)[...] = dd
                        break
        if strict and out["status"] == "ok" and c.cmd not in STRICT_EXEMPT and out["vis"][3] is not None and any(v is not None for v in out["vis"][3]):
            # (a field without a single present cell is a degenerate input: its minimum / maximum is numpy's `masked`, whose conversion warns on the pinned tree)
            # the caller's numpy error settings are not the command's business: with x/0 and 0/0 set to raise (and the matching warnings turned into
            # errors) - the two events masked arithmetic handles itself - the outcome is the same
            out4 = run_impl(c, strict=True)
            ctx.count("strict_environment_twins")
            d = _same(out, out4)
            if d:
                ctx.fail("%s: with numpy.seterr(divide='raise', invalid='raise') set by the caller the outcome differs (%s%s)" % (
                    c.cmd, d, "; " + str(out4.get("text"))[:80] if out4["status"] == "err" else ""), c.describe())
        if plain and out["status"] == "ok" and c.inputs and not any(numpy.ma.getmaskarray(a).any() for a in c.inputs) and out["vis"][3] is not None and None not in out["vis"][3] and (ctx.rng.random() < 0.5 or getattr(c, "always_plain", False)):
            # (a result with missing cells although no input cell is missing marks an undefined operation - 0/0 of a constant field's deviation, a zero divisor:
            # what a plain array holds there instead is outside the comparison)
            # fields without missing cells handed over as plain ndarrays (a plug-in command's result): the same values come back, as a masked array
            out6 = run_impl(c, plain=True)
            ctx.count("plain_ndarray_twins")
            if out6["status"] == "ok" and out6["vis"][0] == "plain":
                # (on the pinned tree the arithmetic commands hand a plain array back when all they were given is plain: the values are what is compared)
                out6 = dict(out6, vis=("masked",) + tuple(out6["vis"][1:]))
                ctx.count("plain_ndarray_twins_plain_result")
            d = _same(out, out6)
            if d:
                ctx.fail("%s: with its inputs handed over as plain ndarrays (no cell missing) the outcome differs (%s)" % (c.cmd, d), c.describe())
            else:
                # ... and the plain arrays the producers handed out (their stored results) are what they were
                d = _handed_changed(c, out6)
                if d:
                    ctx.fail("%s: given plain ndarrays (a plug-in command's result) the command changed its input no. %d, the stored result of another command: %s" % (c.cmd, d[0], d[1]), c.describe())
        if plain and out["status"] == "ok" and len(set(id(a) for a in c.inputs)) >= 2 and not numpy.ma.getmaskarray(c.inputs[0]).any() \
                and any(numpy.ma.getmaskarray(a).any() for a in c.inputs[1:]) and out["vis"][3] is not None and ctx.rng.random() < 0.7:
            # the first listed field is a plain ndarray (a plug-in's result, nothing missing in it), the others are masked arrays with missing cells:
            # the missing cells of the others stay missing, the values are the same
            out7 = run_impl(c, plain="first")
            ctx.count("plain_first_twins")
            if out7["status"] == "ok" and out7["vis"][0] == "plain":
                out7 = dict(out7, vis=("masked",) + tuple(out7["vis"][1:]))
            d = _same(out, out7)
            if d:
                ctx.fail("%s: with its first input handed over as a plain ndarray and the others as masked arrays the outcome differs (%s)" % (c.cmd, d), c.describe())
            else:
                d = _handed_changed(c, out7)
                if d:
                    ctx.fail("%s: given a plain ndarray first and masked arrays after it, the command changed its input no. %d, the stored result of another command: %s" % (c.cmd, d[0], d[1]), c.describe())
        if derived and out["status"] == "ok" and c.inputs and (getattr(c, "always_derived", False) or _rng2(ctx).random() < 0.15):
            # the producers are commands of a user library whose classes are DERIVED from built-in commands (a plug-in that extends CvtToFuzzy, FuzzyOr, Sum ...):
            # to the consumer they are commands like any other - the outcome depends on the arrays they hand out, not on their class
            base = _rng2(ctx).choice(FUZZY_PRODUCERS if c.cmd in FUZZY_CONSUMERS else [x for x in COMMANDS if x not in FUZZY_PRODUCERS])
            out8 = run_impl(c, derived=base)
            ctx.count("derived_producer_twins")
            d = _same(out, out8)
            if d:
                beyond = [v for v in (out8["vis"][3] or []) if v is not None and not (-1 <= v <= 1)] if out8["status"] == "ok" and c.cmd in FUZZY_PRODUCERS else []
                ctx.fail("%s: with its inputs produced by plug-in commands derived from the built-in %s the outcome differs (%s)%s" % (
                    c.cmd, base, d, "; the fuzzy result holds %r, outside [-1, 1]" % beyond[:3] if beyond else ""), dict(c.describe(), producers_derived_from=base))
        if rerun and out["status"] == "ok" and c.inputs and c.inputs[0].size >= 2 and ctx.__dict__.setdefault("_edited_done", {}).get(c.cmd, 0) < 3:
            # edited-field twin (three times per command and check): a field is converted, then corrected IN PLACE by its owner (cells re-measured, one more
            # cell set to missing - the producer command and its array object stay the same), then converted again by a new command: the second conversion
            # is the mapping of the field as it is NOW (nothing remembered with the field - statistics, shapes, masks - may outlive its contents)
            ctx._edited_done[c.cmd] = ctx._edited_done.get(c.cmd, 0) + 1
            first_ = {}
            arrs = [first_.setdefault(id(a), a.copy() if isinstance(a, numpy.ma.MaskedArray) else numpy.ma.array(a)) for a in c.inputs]
            ec = Case(c.cmd, c.params, arrs)
            store = {}
            prime = run_impl(ec, copy_inputs=False, reuse=store)
            if prime["status"] == "ok" and _same(out, prime) is None:
                for a in {id(x): x for x in arrs}.values():
                    dta, msk = numpy.ma.getdata(a), numpy.ma.getmaskarray(a).copy()
                    new_d = numpy.roll(dta.ravel(), 1).reshape(dta.shape)
                    new_m = numpy.roll(msk.ravel(), 1).reshape(msk.shape)
                    if not new_m.all() and new_m.size > 2:
                        new_m.ravel()[int(numpy.flatnonzero(~new_m.ravel())[0])] = True      # one more cell missing
                    dta[...] = new_d
                    a.mask = new_m
                fresh = run_impl(Case(c.cmd, c.params, [x.copy() for x in arrs] if len({id(x) for x in arrs}) == len(arrs) else arrs), copy_inputs=True)
                again = run_impl(ec, copy_inputs=False, reuse=store)
                ctx.count("edited_field_twins")
                d = _same(fresh, again)
                if d:
                    ctx.fail("%s: a field was converted, then edited in place by its owner (cells shifted by one, one more cell missing), then converted again through the same "
                             "producer command: the second result is not the mapping of the field as it is now (%s) - something remembered from the first conversion was used" % (c.cmd, d),
                             dict(c.describe(), edited_inputs=[common.describe_arr(x) if hasattr(common, "describe_arr") else repr(x)[:200] for x in arrs]))
        if payload and out["status"] == "ok" and any(a.dtype.kind == "f" and numpy.ma.getmaskarray(a).any() for a in c.inputs) and ctx.rng.random() < 0.6:
            # what lies beneath a missing cell may be anything, NaN and infinities included (what masked_invalid or a reader leaves behind)
            ins = []
            for a in c.inputs:
                d, m = numpy.ma.getdata(a).copy(), numpy.ma.getmaskarray(a).copy()
                if a.dtype.kind == "f":
                    d[m] = ctx.rng.choice([numpy.nan, numpy.inf, -numpy.inf])
                ins.append(numpy.ma.array(d, mask=m))
            twin_ids = {}
            ins = [twin_ids.setdefault(id(a), b) for a, b in zip(c.inputs, ins)]      # one object listed twice stays one object
            out5 = run_impl(Case(c.cmd, c.params, ins))
            ctx.count("nonfinite_payload_twins")
            d = _same(out, out5)
            if d:
                ctx.fail("%s: with NaN / infinity stored beneath the missing cells of its inputs the outcome differs (%s): hidden values leak" % (c.cmd, d), c.describe())
        if tile and out["status"] == "ok" and COMMANDS[c.cmd][1] == "list" and 2 <= len(c.inputs) <= 6 and c.inputs[0].size <= 64 \
                and c.cmd not in ctx.__dict__.setdefault("_long_done", set()) and any(numpy.ma.getmaskarray(a).any() for a in c.inputs) \
                and not all(numpy.ma.getmaskarray(a).all() for a in c.inputs):
            # once per command and check: the same fields listed over and over until the list has 70 and 150 entries (beyond any threshold at which a body may
            # switch to a stacked or vectorised path), some cells missing in some of the fields only: compared with the model like any other case
            ctx._long_done.add(c.cmd)
            for n_ in (70, 150):
                base = list(c.inputs)
                if c.cmd == "Multiply" and all(a.dtype.kind in "iub" for a in base):
                    # a product of 70 whole numbers leaves the 64-bit range (wrap-around is outside the exact-integer model): the same values as decimals
                    seen_ = {}
                    base = [seen_.setdefault(id(a), numpy.ma.array(numpy.ma.getdata(a).astype(float), mask=numpy.ma.getmaskarray(a).copy())) for a in base]
                    ctx.count("long_list_twins_whole_numbers_as_decimals")
                ins = [base[j % len(base)] for j in range(n_)]
                params = dict(c.params)
                if "Weights" in params and len(params["Weights"]) == len(c.inputs):
                    params["Weights"] = [params["Weights"][j % len(c.inputs)] for j in range(n_)]
                if "NumberToConsider" in params and isinstance(params["NumberToConsider"], int):
                    params["NumberToConsider"] = max(1, min(n_, params["NumberToConsider"] * (n_ // len(c.inputs))))
                lc = Case(c.cmd, params, ins)
                if near_discontinuity(lc):
                    continue
                lo = run_impl(lc)
                la = model.ask([lc.line()])[0]
                ctx.count("long_list_twins")
                if la.startswith("err raw Degenerate") or la.startswith("err raw NotAdmissible"):
                    continue
                d = compare(lo, la, tol)
                if d:
                    ctx.disagree(stream + ":long-list", lc.describe(), impl_summary(lo)[:300], la[:300] + " :: " + d)
                    ctx.fail("%s over a list of %d fields (the same %d fields listed again and again): %s" % (c.cmd, n_, len(c.inputs), d), dict(c.describe(), listed=n_))
        if tile and out["status"] == "ok" and out["vis"][3] is not None and c.inputs and c.inputs[0].ndim >= 1 and 1 <= c.inputs[0].size <= 64 and len(c.inputs) <= 6 \
                and isinstance(out.get("result"), numpy.ndarray) and out["result"].shape == c.inputs[0].shape and c.cmd not in ctx.__dict__.setdefault("_huge_done", set()) \
                and (c.inputs[0].ndim >= 2 or ctx.evaluations > 40):
            # once per command and check (preferably on a grid): the field at scale
            ctx._huge_done.add(c.cmd)
            huge_twin(ctx, c, out)
        if tile and out["status"] == "ok" and out["vis"][3] is not None and c.inputs and c.inputs[0].ndim >= 1 and c.inputs[0].size >= 1 and ctx.rng.random() < 0.04:
            tile_twin(ctx, c, out, ctx.rng.choice([700, 1200, 17000]) // max(1, c.inputs[0].size // 8 + 1) + 2)
        if pipeline and not trivial:
            # the same arguments through Program / Command.run / validate_params / the parameter cleaners: what the body is given, and what
            # comes back, must be what a direct call of the body gives (an argument equal to 0, "" or [] is still an argument)
            direct = out
            cc = c
            if out["status"] == "ok" and ctx.rng.random() < 0.2 and all(a.dtype == numpy.float64 for a in c.inputs) and c.inputs:
                # single-precision inputs (lattice values are exact there): body and pipeline must still agree with each other
                with numpy.errstate(all="ignore"):
                    cc = Case(c.cmd, c.params, [numpy.ma.array(numpy.ma.getdata(a).astype(numpy.float32), mask=numpy.ma.getmaskarray(a).copy()) for a in c.inputs])
                direct = run_impl(cc)
                ctx.count("pipeline_twins_float32")
            piped = run_pipeline(cc, producers_first=bool(ctx.rng.random() < 0.7), rng=ctx.rng, whole_run=bool(ctx.rng.random() < 0.5))
            ctx.count("pipeline_twins")
            if piped["np_params"]:
                # numbers given as numpy scalars of some width: the body's own outcome on those very scalars is the reference (narrow scalars round)
                direct = run_impl(Case(cc.cmd, piped["params_used"], cc.inputs))
            d = pipeline_differs(direct, piped)
            if d:
                ctx.fail("%s: evaluated inside a Program (arguments cleaned, body run by Command.run) the outcome differs from the body's own: %s" % (c.cmd, d), c.describe())
            else:
                for before, after in zip(cc.inputs, piped["inputs_after"]):
                    keep = ~numpy.ma.getmaskarray(before)
                    if c.cmd in FUZZY_CONSUMERS:
                        with numpy.errstate(all="ignore"):
                            keep = keep & (numpy.ma.getdata(before) >= -1) & (numpy.ma.getdata(before) <= 1)
                    if not (numpy.array_equal(numpy.ma.getmaskarray(before), numpy.ma.getmaskarray(after)) and
                            numpy.array_equal(numpy.ma.getdata(before)[keep], numpy.ma.getdata(after)[keep])):
                        ctx.fail("%s: evaluated inside a Program, the stored result of one of its inputs changed" % c.cmd, c.describe())
                        break
            if fault and out["status"] == "ok" and c.inputs and ctx.rng.random() < 0.3:
                # a first evaluation that fails because one input cannot be produced (MPilot error or any other), the cause removed, the same objects evaluated again
                fl = (ctx.rng.choice(["mp", "raw"]), ctx.rng.randrange(8), bool(ctx.rng.random() < 0.5))
                sh0 = c.inputs[0].shape
                if len(set(id(a) for a in c.inputs)) > 1 and c.inputs[0].size > 1 and ctx.rng.random() < 0.5:
                    # another grid with the same number of cells for the first input
                    other = [(c.inputs[0].size,), (1, c.inputs[0].size), (c.inputs[0].size, 1)] + ([tuple(reversed(sh0))] if len(sh0) > 1 else [])
                    other = [o for o in other if o != sh0]
                    if other:
                        fl = ("shape", 0, fl[2], ctx.rng.choice(other))
                        ctx.count("fault_then_repair_twins_shape")
                piped = run_pipeline(c, producers_first=False, whole_run=bool(ctx.rng.random() < 0.5), fault=fl)
                ctx.count("fault_then_repair_twins")
                if piped.get("fault_outcome") != "mp":
                    ctx.fail("%s: with an input that cannot be produced the evaluation ends with %s instead of an MPilot error" % (c.cmd, piped.get("fault_outcome")), dict(c.describe(), fault=list(fl)))
                else:
                    d = pipeline_differs(out, piped)
                    if d:
                        ctx.fail("%s: after a failed evaluation (an input could not be produced) whose cause was removed, evaluating the same Program again "
                                 "differs from the body's own outcome: %s" % (c.cmd, d), dict(c.describe(), fault=list(fl)))
            if out["status"] == "ok" and ctx.rng.random() < 0.5:
                # the same command as one of many in ONE long-lived Program (sub-models over other shapes, element types and parameters
                # were evaluated there before it): what it returns depends on its own inputs and parameters only
                if shared[0] is None or shared[1] >= 25:
                    shared[0], shared[1], shared[2] = new_pipeline_program(), 0, []
                    arrays_lib().HOLD.clear()
                shared[1] += 1
                shared[2].append(c.line())
                piped = run_pipeline(c, producers_first=bool(ctx.rng.random() < 0.5), program=shared[0], tag="_%d_" % shared[1])
                ctx.count("shared_program_twins")
                d = pipeline_differs(out, piped)
                if d:
                    ctx.fail("%s: evaluated as command %d of a Program that evaluated other commands before it, the outcome differs from the "
                             "body's own: %s" % (c.cmd, shared[1], d), dict(c.describe(), history=list(shared[2][:-1])))
        if layout and out["status"] == "ok" and c.inputs and c.inputs[0].ndim >= 2 and ctx.rng.random() < 0.5:
            # the same cells in another memory layout (Fortran order, or a transposed view of the transposed data)
            def relayout(a):
                d, m = numpy.ma.getdata(a), numpy.ma.getmaskarray(a)
                if ctx.rng.random() < 0.5:
                    return numpy.ma.array(numpy.asfortranarray(d), mask=numpy.asfortranarray(m))
                return numpy.ma.array(numpy.ascontiguousarray(d.T).T, mask=numpy.ascontiguousarray(m.T).T)
            twin = Case(c.cmd, c.params, [relayout(a) for a in c.inputs])
            out3 = run_impl(twin, copy_inputs=False)
            ctx.count("layout_twins")
            d = _same(out, out3)
            if d:
                ctx.fail("%s: the same cells in another memory layout give a different result (%s)" % (c.cmd, d), c.describe())
        if narrow and out["status"] == "ok" and out["vis"][1] == "f" and any(a.dtype == numpy.int64 for a in c.inputs):
            # the same integer values held in a narrower integer type (what a NetCDF byte/short variable or a typed array delivers):
            # a floating result must not depend on the width or signedness of the integers it was computed from
            twin = narrow_twin(ctx.rng, c)
            if twin is not None:
                out2 = run_impl(twin)
                ctx.count("narrow_integer_twins")
                d = _same(out, out2)
                if d:
                    ctx.fail("%s: the same integer values stored as %s give a different result (%s)" % (
                        c.cmd, "/".join(str(a.dtype) for a in twin.inputs), d), dict(c.describe(), narrow_dtypes=[str(a.dtype) for a in twin.inputs]))
        if on_result:
            on_result(c, out, ans)
    return kept, outs, answers


# the commands that hand their input object back when the list holds a single field (heap model `aliases`; every other body allocates)
HANDS_BACK_SINGLE = {"Minimum", "Maximum", "FuzzyOr", "FuzzyAnd"}


def result_shares(out):
    """None, or how the result of a successful run_impl is tied to one of the arrays its producers handed out (same object / shared values / shared missing-cell flags)"""
    r = out.get("result")
    if not isinstance(r, numpy.ndarray):
        return None

    def overlap(x, y):
        if not (isinstance(x, numpy.ndarray) and isinstance(y, numpy.ndarray) and x.size and y.size) or not numpy.may_share_memory(x, y):
            return False
        try:
            return bool(numpy.shares_memory(x, y, max_work=10 ** 6))
        except Exception:  # noqa   (too hard to decide exactly: not held against the command)
            return False
    for k, h in enumerate(out.get("handed", [])):
        if r is h:
            return "the result is the very array object of input no. %d" % k
        if overlap(numpy.ma.getdata(r), numpy.ma.getdata(h)):
            return "the values of the result share memory with the values of input no. %d" % k
        if overlap(numpy.ma.getmask(r), numpy.ma.getmask(h)):
            return "the missing-cell flags of the result share memory with those of input no. %d" % k
    return None


def _rng2(ctx):
    """random decisions of the twins added later draw from a generator of their own, so that the cases and twins generated before them stay what they were under every seed"""
    import random
    if "_rng2" not in ctx.__dict__:
        ctx._rng2 = random.Random("twins2-%s-%s" % (ctx.prop, ctx.seed))
    return ctx._rng2


def _handed_changed(c, out):
    """None, or (input no., what changed) when an array handed out by a producer of `out` no longer holds what the case's input holds (both hold the same cells)"""
    for k, (a, h) in enumerate(zip(c.inputs, out.get("handed", []))):
        d0, m0 = numpy.ma.getdata(a), numpy.ma.getmaskarray(a)
        keep = ~m0
        if c.cmd in FUZZY_CONSUMERS:
            # (an input declared fuzzy that holds values outside [-1, 1] is no result of any fuzzy command: limiting those in place is not held against the consumer)
            with numpy.errstate(all="ignore"):
                keep = keep & (d0 >= -1) & (d0 <= 1)
        if isinstance(h, numpy.ma.MaskedArray) != isinstance(a, numpy.ma.MaskedArray) and isinstance(h, numpy.ma.MaskedArray):
            return k, "a plain ndarray became a masked array"
        if h.shape != a.shape or h.dtype != a.dtype:
            return k, "shape / element type %r %s -> %r %s" % (a.shape, a.dtype, h.shape, h.dtype)
        if not numpy.array_equal(numpy.ma.getmaskarray(h), m0):
            return k, "missing cells changed"
        d1 = numpy.ma.getdata(h)
        if not numpy.array_equal(d0[keep], d1[keep]):
            return k, "values %r -> %r" % (d0[keep].ravel().tolist()[:6], d1[keep].ravel().tolist()[:6])
    return None


def narrow_twin(rng, case):
    """the case with every int64 input recast to a random narrower integer type that holds all its visible values
    (payloads under missing cells are replaced by a visible value of the array, or 0)"""
    ins = []
    changed = False
    for a in case.inputs:
        if a.dtype != numpy.int64:
            ins.append(a)
            continue
        vis = a.compressed().tolist()
        lo, hi = (min(vis), max(vis)) if vis else (0, 0)
        fits = [dt for dt in (numpy.int8, numpy.uint8, numpy.int16, numpy.uint16, numpy.int32, numpy.uint32)
                if numpy.iinfo(dt).min <= lo and hi <= numpy.iinfo(dt).max]
        if not fits:
            ins.append(a)
            continue
        # mostly the narrowest signed / unsigned type that holds the values (where wrap-around shows first), sometimes any fitting type
        narrowest = [next(dt for dt in fits if numpy.dtype(dt).kind == k) for k in "iu" if any(numpy.dtype(dt).kind == k for dt in fits)]
        dt = rng.choice(narrowest) if rng.random() < 0.8 else rng.choice(fits)
        data = numpy.where(numpy.ma.getmaskarray(a), vis[0] if vis else 0, numpy.ma.getdata(a)).astype(dt)
        ins.append(numpy.ma.array(data, mask=numpy.ma.getmaskarray(a).copy()))
        changed = True
    return Case(case.cmd, case.params, ins) if changed else None


def _same(o1, o2, tol=common.TOL):
    if o1["status"] != o2["status"]:
        return "first %s, then %s" % (impl_summary(o1)[:60], impl_summary(o2)[:60])
    if o1["status"] == "err":
        return None if o1["cls"] == o2["cls"] else "%s then %s" % (o1["cls"], o2["cls"])
    if o1["vis"][:3] != o2["vis"][:3]:
        return "%r then %r" % (o1["vis"][:3], o2["vis"][:3])
    for i, (a, b) in enumerate(zip(o1["vis"][3], o2["vis"][3])):
        if (a is None) != (b is None) or (a is not None and abs(a - b) > tol * max(1.0, abs(b))):
            return "cell %d: %r then %r" % (i, a, b)
    return None


def case_from_line(line):
    """inverse of Case.line() (for --replay)"""
    toks = line.split(" ")
    assert toks[0] == "exec"
    parts = toks[1].split("|")
    cmd = parts[0]
    _, _, pmap = COMMANDS[cmd]
    rev = {key: (k, ty) for k, (key, ty) in pmap.items()}

    def num(t):
        v, k = t.split(":")
        f = Fraction(v)
        return int(f) if k == "i" else float(f)
    params = {}
    for kv in parts[1:]:
        key, v = kv.split("=")
        k, ty = rev[key]
        params[k] = num(v) if ty == N else ([num(x) for x in v.split(",")] if v else []) if ty == NS else common.dec_str(v) if ty == S else v == "1"
    inputs = []
    for t in toks[2:]:
        dt, sh, cs = t.split("|")
        shape = tuple(int(x) for x in sh.split("x"))
        data, mask = [], []
        for c in cs.split(","):
            v, m = c.split(":")
            data.append(float(Fraction(v)) if dt == "f" else int(Fraction(v)))
            mask.append(m == "1")
        inputs.append(numpy.ma.array(numpy.array(data, dtype=float if dt == "f" else int).reshape(shape), mask=numpy.array(mask).reshape(shape)))
    return Case(cmd, params, inputs)
