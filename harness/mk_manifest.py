"""Writes /verif/MANIFEST.json from the table below (run after adding a check)."""
import json, os, sys
HERE = os.path.dirname(os.path.dirname(os.path.abspath(__file__)))
sys.path.insert(0, HERE)

BASELINE = "cd /repo && /venv/bin/python -m pytest -ra -q -p no:cacheprovider --timeout=900 --continue-on-collection-errors"

from harness import claims  # noqa
CHECKS = claims.CHECKS

ALL = ["C%02d" % i for i in range(1, 21)]


def main():
    checks = []
    for pid in ALL:
        if pid not in CHECKS:
            continue
        c = CHECKS[pid]
        checks.append({
            "property_id": pid,
            "quick_cmd": "./check %s quick" % pid,
            "thorough_cmd": "./check %s thorough" % pid,
            "evidence_file": "evidence/%s.json" % pid,
            "replay_cmd_template": "./check %s --replay {path}" % pid,
            "engine": "lean4-proof+correspondence",
            "level_claimed": {"category": c["category"], "text": c["text"], "design_ref": c["ref"]},
            "level_note": c["note"],
            "technique": c["technique"],
        })
    na = [{"property_id": pid, "reason": claims.NOT_CLAIMED.get(pid, "check not built yet (work in progress; see DESIGN.md section 5 for the plan)")}
          for pid in ALL if pid not in CHECKS]
    man = {
        "version": 1,
        "setup_cmd": "cd lean && lake build",
        "hooks": {
            "guard": "MPILOT_VERIF",
            "enable": "no source hooks: instrumentation wraps execute()/result on a scratch copy of /repo/mpilot made by the harness at run time",
            "baseline_off_cmd": BASELINE,
            "source_commits": [],
            "add_only": True,
        },
        "engines": [{
            "name": "lean4-proof+correspondence",
            "path": "check",
            "serves_properties": [c["property_id"] for c in checks],
            "kind_free_text": "Lean 4 theorems about a hand-written executable model (lean/MPilot), tables regenerated from /repo by harness/translate.py, "
                              "differential correspondence of model vs real code through a line protocol (lean/Main.lean), property oracles on the real code for replays",
        }],
        "checks": checks,
        "not_applicable": na,
        "notes": "See DESIGN.md. Genuine defects of the pinned tree repaired by fix: commits or listed in known_findings.json.",
    }
    with open(os.path.join(HERE, "MANIFEST.json"), "w") as f:
        json.dump(man, f, indent=1)
    print("MANIFEST.json: %d checks, %d not claimed" % (len(checks), len(na)))


if __name__ == "__main__":
    main()
