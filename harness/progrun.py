"""Scenarios at program level: a list of commands (rendered to command-file text with known line numbers), loaded with the
real `Program.from_source`, run with stubbed `execute` bodies that log entry/exit and read their inputs' results, and the
same scenario sent to the model (`prog` op).  Used by C01, C02 (order), C11, C12, C13, C14."""
from __future__ import print_function

import contextlib
import io
import os
import sys

from . import common, prog
from .common import enc_str

EEMS_LIBS = ("mpilot.libraries.eems.basic", "mpilot.libraries.eems.csv", "mpilot.libraries.eems.fuzzy")


class Name(object):
    """an unquoted identifier in the source (result references, plain words)"""

    def __init__(self, s):
        self.s = s

    def __repr__(self):
        return "Name(%r)" % self.s


def quote(s):
    out = s.replace("\\", "\\\\").replace('"', '\\"').replace("\n", "\\n").replace("\t", "\\t").replace("\r", "\\r")
    return '"%s"' % out


def render_value(v):
    if isinstance(v, Name):
        return v.s
    if isinstance(v, bool):
        return "True" if v else "False"
    if isinstance(v, int):
        return str(v)
    if isinstance(v, float):
        r = repr(v)
        return r if ("e" not in r and "." in r) else "%.6f" % v
    if isinstance(v, str):
        return quote(v)
    if isinstance(v, list):
        return "[" + ", ".join(render_value(x) for x in v) + "]"
    if isinstance(v, dict):
        return "[" + ", ".join("%s: %s" % (quote(k), quote(x)) for k, x in v.items()) + "]"
    raise ValueError(v)


def raw_of(v):
    """the raw value the parser delivers for a rendered value"""
    if isinstance(v, Name):
        return v.s
    if isinstance(v, bool):
        return "True" if v else "False"       # lexed as an identifier: arrives as a string
    if isinstance(v, float):
        return float(render_value(v))
    if isinstance(v, list):
        return [raw_of(x) for x in v]
    if isinstance(v, dict):
        return dict((k, x) for k, x in v.items())
    return v


class Scenario(object):
    """commands: list of (result_name, command_name, [(arg_name, value), ...]); ops: list of ("run",) / ("result", name)"""

    def __init__(self, commands, ops=(("run",),), wd=None, libs=None, blank=None):
        self.commands = commands
        self.ops = list(ops)
        self.wd = wd
        self.libs = libs or (prog.TESTLIB,)
        self.blank = blank or {}      # index of command -> number of blank/comment lines before it
        self.lines = None
        self.source = None
        self._render()

    def _render(self):
        out = []
        self.lines = []
        for i, (res, cmd, args) in enumerate(self.commands):
            for j in range(self.blank.get(i, 0)):
                out.append("# comment %d" % j if j % 2 else "")
            head = "%s = %s(" % (res, cmd) if res is not None else "%s(" % cmd
            if not args:
                out.append(head + ")")
                self.lines.append((len(out), []))
                continue
            out.append(head)
            cmd_line = len(out)
            arg_lines = []
            for k, (name, value) in enumerate(args):
                out.append("    %s = %s%s" % (name, render_value(value), "," if k + 1 < len(args) else ""))
                arg_lines.append(len(out))
            out.append(")")
            self.lines.append((cmd_line, arg_lines))
        self.source = "\n".join(out) + "\n"

    def line_of(self, result_name):
        for (res, _, _), (cl, _) in zip(self.commands, self.lines):
            if res == result_name:
                return cl
        return None

    # -- model side
    def existing_paths(self):
        """every path an argument value could denote (as written, and joined to the working directory) that exists now"""
        found = set()

        def walk(v):
            if isinstance(v, (list, tuple)):
                for x in v:
                    walk(x)
            elif isinstance(v, dict):
                return
            else:
                r = raw_of(v)
                if isinstance(r, (str, int)) and not isinstance(r, bool):
                    for cand in [str(r)] + ([os.path.join(self.wd, str(r))] if self.wd is not None else []):
                        try:
                            if os.path.exists(cand):
                                found.add(cand)
                        except (ValueError, OSError):
                            pass
        for _, _, args in self.commands:
            for _, v in args:
                walk(v)
        return sorted(found)

    def protocol(self, decl_classes, exist_paths=None):
        if exist_paths is None:
            exist_paths = self.existing_paths()
        decls = " ".join(prog.enc_decl(c) for c in decl_classes)
        nodes = []
        for (res, cmd, args), (cl, als) in zip(self.commands, self.lines):
            nodes.append(prog.enc_node(res, cmd, [(n, raw_of(v), al) for (n, v), al in zip(args, als)], cl))
        def enc_op(o):
            if o[0] == "run":
                return "run"
            if o[0] == "flag":
                return "flag%d" % int(bool(o[1]))
            if o[0] == "del":       # del program.commands[name]
                return "del " + enc_str(o[1])
            if o[0] == "copy":      # the program is replaced by copy.deepcopy(program); the original is dropped
                return "copy"
            if o[0] == "addobj":    # like add, but references are given as the Command objects themselves
                res, cmd, args = o[1]
                return "add " + prog.enc_node(res, cmd, [(n, raw_of(v), None) for n, v in args], None)
            if o[0] == "add":       # Program.add_command(cls, result_name, {name: raw value}) through the API: no line numbers
                res, cmd, args = o[1]
                return "add " + prog.enc_node(res, cmd, [(n, raw_of(v), None) for n, v in args], None)
            return "result " + enc_str(o[1])
        ops = " ".join(enc_op(o) for o in self.ops)
        return "prog %s %d %s %d %s %d %s" % (prog.enc_env(self.wd, list(exist_paths)), len(decl_classes), decls,
                                                 len(nodes), " ".join(nodes), len(self.ops), ops)

    def describe(self):
        return {"source": self.source, "ops": [[repr(x) for x in o] for o in self.ops], "working_dir": self.wd, "libraries": list(self.libs)}


# ---------------------------------------------------------------- instrumented implementation run

class Recorder(object):
    def __init__(self):
        self.log = []        # "+name" / "-name"
        self.reads = []      # (consumer, producer, producer_finished_before_read, value_is_final_result)
        self.effects = []
        self.flag = True     # environment condition under which `Fail = flag` bodies fail; switched by the op ("flag", b)


def stub_execute(rec, original=None):
    """replacement for every `execute`: logs entry, reads the results of all referenced commands (declared-input order),
    logs exit and returns a value of the declared output kind"""
    import numpy
    from mpilot.commands import Command

    def execute(self, **kw):
        rec.log.append("+" + str(self.result_name))
        for name in self.inputs:
            if name in kw:
                flat = []

                def walk(x):
                    if isinstance(x, (list, tuple)):
                        for y in x:
                            walk(y)
                    elif isinstance(x, Command):
                        flat.append(x)
                walk(kw[name])
                for c in flat:
                    fin = c.is_finished
                    r = c.result
                    # the object read is the command that carries that name in the program now, finished, handing out its stored result
                    current = getattr(self, "program", None) is None or self.program.commands.get(c.result_name) is c
                    rec.reads.append((self.result_name, c.result_name, fin, c.is_finished and r is c._result and current))
        fail = kw.get("Fail")
        if fail == "mp":
            from mpilot.exceptions import ProgramError
            raise ProgramError(self.lineno, "deliberate failure")
        if fail == "value" or (fail == "flagvalue" and rec.flag):
            raise ValueError("deliberate failure")
        if fail == "flag" and rec.flag:
            from mpilot.exceptions import ProgramError
            raise ProgramError(self.lineno, "deliberate failure (environment)")
        from mpilot import params as P
        out = self.output
        if type(self).__name__ in ("W", "NoOut", "EEMSWrite", "PrintVars"):
            rec.effects.append(self.result_name)
        rec.log.append("-" + str(self.result_name))
        if isinstance(out, P.DataParameter):
            return numpy.ma.array([0.5, -0.5]) if getattr(self, "is_fuzzy", False) else numpy.ma.array([1.0, 2.0])
        if type(self).__name__ == "NoneResult":
            return None
        if type(self).__name__ in ("W", "EEMSWrite", "PrintVars"):
            return True
        return ("tok", self.result_name)
    return execute


@contextlib.contextmanager
def stubbed(classes, rec):
    saved = {}
    for c in classes:
        if "execute" in c.__dict__:
            saved[c] = c.__dict__["execute"]
        c.execute = stub_execute(rec)
    try:
        yield
    finally:
        for c in classes:
            if c in saved:
                c.execute = saved[c]
            else:
                try:
                    del c.execute
                except AttributeError:
                    pass


def classify(e):
    from mpilot.exceptions import MPilotError, UnexpectedError
    if isinstance(e, SyntaxError):
        return "syntax"
    if isinstance(e, UnexpectedError):
        return "unexpected:%s:%s" % (type(e.exc).__name__, prog.enc_line(getattr(e, "lineno", None)))
    if isinstance(e, MPilotError):
        return "mp:%s:%s" % (type(e).__name__, prog.enc_line(getattr(e, "lineno", None)))
    return "raw:" + type(e).__name__


def library_classes(libs):
    from mpilot.program import Program
    prog.testlib()
    p = Program(libraries=libs)
    return p, list(p.command_library.values())


def run_impl(sc, recursion_limit=None):
    """returns dict(load=..., ops=[...], log=[...], finished=[...], reads=[...], effects=[...], program=Program|None)"""
    from mpilot.program import Program
    prog.testlib()
    rec = Recorder()
    base, classes = library_classes(sc.libs)
    res = {"ops": [], "log": rec.log, "reads": rec.reads, "effects": rec.effects, "program": None, "finished": [], "str_errors": []}
    old = sys.getrecursionlimit()
    if recursion_limit:
        sys.setrecursionlimit(recursion_limit)
    try:
        with stubbed(classes, rec):
            try:
                p = Program.from_source(sc.source, libraries=sc.libs, working_dir=sc.wd)
                res["load"] = "ok"
                res["program"] = p
            except BaseException as e:
                res["load"] = classify(e)
                res["exc"] = e
                return res
            for op in sc.ops:
                try:
                    with contextlib.redirect_stdout(io.StringIO()):
                        if op[0] == "run":
                            p.run()
                        elif op[0] == "flag":
                            rec.flag = bool(op[1])
                        elif op[0] == "add":
                            r_, c_, a_ = op[1]
                            from collections import OrderedDict
                            p.add_command(p.find_command_class(c_), r_, OrderedDict((n, raw_of(v)) for n, v in a_))
                        elif op[0] == "addobj":
                            r_, c_, a_ = op[1]
                            from collections import OrderedDict

                            def obj(v):
                                if isinstance(v, Name) and v.s in p.commands:
                                    return p.commands[v.s]
                                if isinstance(v, list):
                                    return [obj(x) for x in v]
                                return raw_of(v)
                            p.add_command(p.find_command_class(c_), r_, OrderedDict((n, obj(v)) for n, v in a_))
                        elif op[0] == "del":
                            del p.commands[op[1]]
                        elif op[0] == "copy":
                            import copy, gc
                            q = copy.deepcopy(p)
                            res["program"] = q
                            del p
                            gc.collect()
                            p = q
                        else:
                            p.commands[op[1]].result
                    res["ops"].append("ok")
                except BaseException as e:
                    res["ops"].append(classify(e))
                    res["exc"] = e
                    try:
                        str(e)
                    except Exception as e2:
                        res["str_errors"].append("%s: str() raised %s" % (type(e).__name__, type(e2).__name__))
            res["finished"] = [n for n, c in p.commands.items() if c.is_finished]
    finally:
        sys.setrecursionlimit(old)
    return res


def impl_text(res):
    if res["load"] != "ok":
        return "load " + res["load"]
    return "load ok ; %s ; %s ; %s" % (" ".join(res["ops"]), " ".join(s[0] + enc_str(s[1:]) for s in res["log"]),
                                        " ".join(sorted(enc_str(n) for n in res["finished"])))


def model_text(ans):
    """normalise the model's answer to the same shape (memo values dropped, finished names sorted)"""
    if not ans.startswith("load ok"):
        return ans
    parts = ans.split(" ; ")
    while len(parts) < 4:
        parts.append("")
    memo = sorted(kv.split("=")[0] for kv in parts[3].split(" ") if kv)
    return "load ok ; %s ; %s ; %s" % (parts[1].strip(), parts[2].strip(), " ".join(memo))


def compare(res, ans, ignore_cycle_line=True):
    a, b = impl_text(res), model_text(ans)
    if ignore_cycle_line:
        import re
        a = re.sub(r"mp:RecursiveModelStructure:\S+", "mp:RecursiveModelStructure:*", a)
        b = re.sub(r"mp:RecursiveModelStructure:\S+", "mp:RecursiveModelStructure:*", b)
    return None if a == b else (a, b)
