"""Programs built through the programming interface (Program() + add_command) over a counting plug-in command, with the *intended* reference graph kept
beside them: which command object every reference stands for, and the value every command must end with.  Used by C01 (foreign command objects, argument
structures reused for several programs, runs interrupted by a BaseException) and C13 (command objects that are not / no longer registered at run time).

The one command `Val` returns `Value` plus the results of everything it references (One, Two: direct; Many: list; Nested: list of lists), so a consumer fed by
another command than the one it references ends with another number - and the bodies log, by object, who executed and who was handed what."""
import sys
import types

LIB = "mpverif_apihist"

SRC = '''
from mpilot import params
from mpilot.commands import Command

EVENTS = []       # ("+", command object) at entry of a body, ("-", command object) at its exit
READS = []        # (consumer object, the object it was handed, the result it read from it)
STOP = {}         # result name -> [exception to raise inside the body, "before" / "after" its references are read, how many more times]


class Timeout(BaseException):
    """what a caller-side watchdog raises inside a long computation: no Exception, like KeyboardInterrupt / SystemExit / GeneratorExit"""


def _flat(x, out):
    if isinstance(x, (list, tuple)):
        for y in x:
            _flat(y, out)
    elif x is not None:
        out.append(x)
    return out


_R = params.ResultParameter(params.NumberParameter(), required=False)


class Val(Command):
    inputs = {"Value": params.NumberParameter(required=False), "One": _R, "Two": params.ResultParameter(params.NumberParameter(), required=False),
              "Many": params.ListParameter(params.ResultParameter(params.NumberParameter()), required=False),
              "Nested": params.ListParameter(params.ListParameter(params.ResultParameter(params.NumberParameter())), required=False)}
    output = params.NumberParameter()

    def execute(self, **kw):
        EVENTS.append(("+", self))
        stop = STOP.get(self.result_name)
        if stop and stop[2] > 0 and stop[1] == "before":
            stop[2] -= 1
            raise stop[0]
        total = kw.get("Value", 0)
        for c in _flat([kw.get(k) for k in ("One", "Two", "Many", "Nested")], []):
            r = c.result
            READS.append((self, c, r))
            total += r
        if stop and stop[2] > 0:
            stop[2] -= 1
            raise stop[0]
        EVENTS.append(("-", self))
        return total
'''


def lib():
    if LIB not in sys.modules:
        m = types.ModuleType(LIB)
        sys.modules[LIB] = m
        exec(compile(SRC, LIB, "exec"), m.__dict__)
    return sys.modules[LIB]


def reset():
    m = lib()
    del m.EVENTS[:]
    del m.READS[:]
    m.STOP.clear()
    return m


def flat(x):
    return lib()._flat(x, [])


class World(object):
    """the commands of one case (of one or several programs, or of none) with what each is meant to reference and to be worth"""

    def __init__(self):
        self.m = reset()
        self.refs = {}        # id(command) -> [command objects it references, in reading order]
        self.want = {}        # id(command) -> the number it must end with
        self.cmds = []        # every command object, in the order of creation
        self.built = []       # readable account of how the case was built

    def program(self, label):
        from mpilot.program import Program
        p = Program(libraries=(LIB,))
        p.label = label
        return p

    def _note(self, c, value, one, two, many, nested):
        refs = [x for x in (one, two) if x is not None] + flat(many) + flat(nested)
        self.refs[id(c)] = refs
        self.want[id(c)] = value + sum(self.want[id(r)] for r in refs)
        self.cmds.append(c)
        return c

    def add(self, p, name, value, one=None, two=None, many=None, nested=None, by=lambda ref: "name"):
        """adds `name = Val(...)` to p; the references are given as the command objects meant; `by(ref)` says how each is written: "name" | "object" """
        from collections import OrderedDict

        def w(x):
            if isinstance(x, (list, tuple)):
                return [w(y) for y in x]
            return x.result_name if by(x) == "name" else x
        args = OrderedDict([("Value", value)])
        for key, v in (("One", one), ("Two", two), ("Many", many), ("Nested", nested)):
            if v is not None:
                args[key] = w(v)
        p.add_command(self.m.Val, name, args)
        self.built.append("%s.add_command(Val, %r, %s)" % (p.label, name, self.show(args)))
        return self._note(p.commands[name], value, one, two, many, nested)

    def free(self, name, value, one=None, many=None):
        """a free-standing command (no program): its references can only be objects"""
        from mpilot.arguments import Argument
        args = [Argument("Value", value)] + ([Argument("One", one)] if one is not None else []) + ([Argument("Many", list(many))] if many is not None else [])
        c = self.m.Val(name, args)
        self.built.append("%s = Val(%r, [%s])   # belongs to no program" % (name, name, ", ".join("Argument(%r, %s)" % (a.name, self.show_value(a.value)) for a in args)))
        return self._note(c, value, one, None, many, None)

    def owner(self, c):
        return getattr(getattr(c, "program", None), "label", None) or "no program"

    def show_value(self, v):
        from mpilot.commands import Command
        if isinstance(v, Command):
            return "<the command %s of %s>" % (v.result_name, self.owner(v))
        if isinstance(v, (list, tuple)):
            return "[" + ", ".join(self.show_value(x) for x in v) + "]"
        return repr(v)

    def show(self, args):
        return "{" + ", ".join("%r: %s" % (k, self.show_value(getattr(v, "value", v))) for k, v in args.items()) + "}"

    def who(self, c):
        return "%s (%s)" % (c.result_name, self.owner(c))

    def entered(self, c):
        return sum(1 for k, x in self.m.EVENTS if k == "+" and x is c)

    def completed(self, c):
        return sum(1 for k, x in self.m.EVENTS if k == "-" and x is c)

    def problems(self, must_have_run=()):
        """C01 on what the bodies logged: every consumer was handed exactly the command objects it references and read their stored results, no command
        completed twice or was entered again after completing, the ones in `must_have_run` completed, and every finished command is worth what its graph says"""
        out = []
        for c in self.cmds:
            k = self.completed(c)
            if k > 1:
                out.append("%s completed %d executions (expected exactly one)" % (self.who(c), k))
            seen = False
            for kind, x in self.m.EVENTS:
                if x is c:
                    if kind == "-":
                        seen = True
                    elif seen:
                        out.append("%s was executed again after it had completed" % self.who(c))
                        break
        for c in must_have_run:
            if self.completed(c) != 1 or not c.is_finished:
                out.append("%s was %s (completed executions: %d)" % (self.who(c), "never executed" if not self.entered(c) else "not finished", self.completed(c)))
        done = set(id(x) for k, x in self.m.EVENTS if k == "-")
        for c in self.cmds:
            if id(c) not in done:
                continue
            # what its (one) completed execution was handed
            handed = [(prod, r) for cons, prod, r in self.m.READS if cons is c]
            last = handed[len(handed) - len(self.refs[id(c)]):] if len(handed) >= len(self.refs[id(c)]) else handed
            if [id(p) for p, _ in last] != [id(r) for r in self.refs[id(c)]]:
                out.append("%s references %s but was handed %s" % (self.who(c), [self.who(r) for r in self.refs[id(c)]] or "nothing", [self.who(p) for p, _ in last] or "nothing"))
                continue
            for p, r in last:
                if not p.is_finished or r is not p._result:
                    out.append("%s read from %s something that is not that command's finished result" % (self.who(c), self.who(p)))
            if c.is_finished and c._result != self.want[id(c)]:
                out.append("%s is worth %r; fed by the finished results of the commands it references it is worth %r" % (self.who(c), c._result, self.want[id(c)]))
        return out

    def describe(self, ops):
        return {"library": "harness/apihist.py SRC (module %s): Val = Value + the results of One, Two, Many, Nested" % LIB, "built": list(self.built), "then": list(ops)}


KEYS = ("One", "Two", "Many", "Nested")


def rand_spec(rng, n, prefix="c"):
    """an acyclic model over Val as a list of (name, Value, {parameter: name | [names] | [[names]]}), every command referencing earlier ones only"""
    spec = []
    for i in range(n):
        deps = rng.sample(range(i), rng.randrange(0, min(i, 4) + 1)) if i else []
        if deps and rng.random() < 0.2:
            deps.append(rng.choice(deps))            # the same result referenced twice
        names = ["%s%d" % (prefix, j) for j in deps]
        rng.shuffle(names)
        refs = {}
        if names and rng.random() < 0.5:
            refs["One"] = names.pop()
        if names and rng.random() < 0.3:
            refs["Two"] = names.pop()
        if names:
            if rng.random() < 0.4:
                cut = rng.randrange(0, len(names) + 1)
                refs["Nested"] = [names[:cut], names[cut:]]
            else:
                refs["Many"] = names
        spec.append(("%s%d" % (prefix, i), rng.randrange(1, 1000), refs))
    return spec


def spec_text(spec):
    def r(v):
        return "[" + ", ".join(r(x) for x in v) + "]" if isinstance(v, (list, tuple)) else str(v)
    return "".join("%s = Val(%s)\n" % (name, ", ".join(["Value = %d" % value] + ["%s = %s" % (k, r(refs[k])) for k in KEYS if k in refs])) for name, value, refs in spec)


def fresh_args(value, refs):
    """the argument dictionary of one command of a spec, every list a new object"""
    from collections import OrderedDict
    import copy
    return OrderedDict([("Value", value)] + [(k, copy.deepcopy(refs[k])) for k in KEYS if k in refs])


def note_program(w, p, spec):
    """registers the commands of p (built from `spec`, whichever way) with the world: every name of the spec stands for the command of that name in p"""
    def obj(v):
        return [obj(x) for x in v] if isinstance(v, (list, tuple)) else p.commands[v]
    for name, value, refs in spec:
        got = dict((k, obj(refs[k])) for k in KEYS if k in refs)
        w._note(p.commands[name], value, got.get("One"), got.get("Two"), got.get("Many"), got.get("Nested"))


def load(w, label, spec, order=None):
    """Program.from_source of the spec's text (commands in the given order)"""
    from mpilot.program import Program
    text = spec_text(spec if order is None else [spec[i] for i in order])
    p = Program.from_source(text, libraries=(LIB,))
    p.label = label
    w.built.append("%s = Program.from_source(%r, libraries=(%r,))" % (label, text, LIB))
    note_program(w, p, spec)
    return p


def build(w, label, spec, args_of=None, how="the same argument objects"):
    """Program() + add_command per command of the spec; `args_of(name, value, refs)` may hand in argument objects owned by the caller (reused ones)"""
    p = w.program(label)
    for name, value, refs in spec:
        args = args_of(name, value, refs) if args_of is not None else None
        reused = args is not None
        if args is None:
            args = fresh_args(value, refs)
        p.add_command(w.m.Val, name, args)
        w.built.append("%s.add_command(Val, %r, %s)%s" % (label, name, w.show(fresh_args(value, refs)), "   # %s" % how if reused else ""))
    note_program(w, p, spec)
    return p
