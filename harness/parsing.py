"""Parser-level plumbing: canonical text of parse trees (real parser and model), source generators."""
from fractions import Fraction

from .common import enc_str


def canon_expr(x):
    v = x.value
    if isinstance(v, list):
        body = "l[" + ",".join(canon_expr(e) for e in v) + "]"
    elif isinstance(v, dict):
        body = "d{" + ",".join("%s=%s" % (enc_str(k), canon_expr(e)) for k, e in v.items()) + "}"
    elif isinstance(v, bool):
        body = "?bool"
    elif isinstance(v, int):
        body = "i:%d" % v
    elif isinstance(v, float):
        body = "f:" + (0.0 if v == 0 else v).hex()        # the sign of zero is not represented in the model (exact rationals)
    elif isinstance(v, str):
        body = "s:" + enc_str(v)
    else:
        body = "?" + type(v).__name__
    return "e(%s,%s)" % (x.lineno, body)


def canon_program(p):
    parts = []
    for c in p.commands:
        rn = "~" if c.result_name is None else enc_str(c.result_name)
        args = ",".join("arg(%s,%s,%s)" % (enc_str(a.name), a.lineno, canon_expr(a.value)) for a in c.arguments)
        parts.append("cmd(%s,%s,%s,[%s])" % (rn, enc_str(c.command), c.lineno, args))
    return "ok v%d %s" % (p.version, " ".join(parts))


def real_parse(src, parser=None):
    from mpilot.parser.parser import Parser
    import warnings
    try:
        with warnings.catch_warnings():
            warnings.simplefilter("ignore")
            return canon_program((parser or Parser()).parse(src))
    except SyntaxError:
        return "syntax"
    except RecursionError:
        return "raw:RecursionError"
    except Exception as e:
        return "raw:" + type(e).__name__


def _exact_value(v):
    """kind and exact value of what was parsed / handed over: `int:1` is not `float:1.0`, `float:-0.0` is not `float:0.0`"""
    if hasattr(v, "lineno") and hasattr(v, "value"):         # ExpressionNode, Argument, ListArgument
        v = v.value
    if isinstance(v, list):
        return [_exact_value(x) for x in v]
    if isinstance(v, dict):
        return {"tuple": sorted([k, _exact_value(x)] for k, x in v.items())}
    return "%s:%s" % (type(v).__name__, v if isinstance(v, str) else repr(v))


def exact_parse(src, parser=None):
    """[[result name, command name, [[argument name, value]]]] with kinds and signs kept (see render.exact), or the name of the exception"""
    from mpilot.parser.parser import Parser
    try:
        tree = (parser or Parser()).parse(src)
    except Exception as e:
        return type(e).__name__
    return [[c.result_name, c.command, [[a.name, _exact_value(a.value)] for a in c.arguments]] for c in tree.commands]


def exact_load(src):
    """the same for what Program.from_source hands to the commands"""
    try:
        prog = any_program().from_source(src, libraries=())
    except Exception as e:
        return type(e).__name__
    asked = prog.__dict__.get("asked", [])
    return [[rn, name, [[a.name, _exact_value(a)] for a in c.arguments]] for (rn, c), name in zip(prog.commands.items(), asked)]


# ---- the same text through Program.from_source: what the commands are actually handed

def _body(v):
    if isinstance(v, bool):
        return "?bool"
    if isinstance(v, int):
        return "i:%d" % v
    if isinstance(v, float):
        return "f:" + (0.0 if v == 0 else v).hex()
    if isinstance(v, str):
        return "s:" + enc_str(v)
    return "?" + type(v).__name__


def _proj_expr(x):
    v = x.value
    if isinstance(v, list):
        return "l%s[%s]" % (x.lineno, ",".join("%s:%s" % (e.lineno, _proj_expr(e)) for e in v))
    if isinstance(v, dict):
        return "d{" + ",".join("%s=%s" % (enc_str(k), _body(e.value)) for k, e in v.items()) + "}"
    return _body(v)


def project(p):
    """what `Program.from_source` has to hand to the commands of the parsed program `p` (ProgramNode): result name, command name, line, and per
    argument its name, line (scalars, tuples) or the lines of the list and of its elements, and the value"""
    parts = []
    for c in p.commands:
        args = ",".join("arg(%s,%s,%s)" % (enc_str(a.name), "-" if isinstance(a.value.value, list) else a.lineno, _proj_expr(a.value)) for a in c.arguments)
        parts.append("cmd(%s,%s,%s,[%s])" % (enc_str(c.result_name), enc_str(c.command), c.lineno, args))
    return "ok " + " ".join(parts)


_ANY = []


def any_program():
    """a Program class whose library has every command name: each name is served by one permissive command class (any arguments)"""
    if not _ANY:
        from mpilot.program import Program
        from mpilot.commands import Command

        class AnyCommand(Command):
            allow_extra_inputs = True
            inputs = {}

            def execute(self, **kwargs):
                return None

        class AnyProgram(Program):
            def find_command_class(self, name):
                self.__dict__.setdefault("asked", []).append(name)
                return AnyCommand
        _ANY.append(AnyProgram)
    return _ANY[0]


def _load_val(v):
    from mpilot.arguments import ListArgument
    if isinstance(v, ListArgument):
        lines = v.list_linenos if v.list_linenos is not None else ["?"] * len(v.value)
        return "l%s[%s]" % (v.lineno, ",".join("%s:%s" % (ln, _load_val(x)) for ln, x in zip(lines, v.value)))
    if isinstance(v, dict):
        return "d{" + ",".join("%s=%s" % (enc_str(k), _body(e)) for k, e in v.items()) + "}"
    if isinstance(v, list):
        return "?rawlist"
    return _body(v)


def real_load(src):
    """canonical text of what Program.from_source(src) hands to the commands, or 'err:<class>'"""
    from mpilot.arguments import ListArgument
    import warnings
    try:
        with warnings.catch_warnings():
            warnings.simplefilter("ignore")
            prog = any_program().from_source(src, libraries=())
    except SyntaxError:
        return "syntax"
    except Exception as e:
        return "err:" + type(e).__name__
    parts = []
    asked = prog.__dict__.get("asked", [])
    if len(asked) != len(prog.commands):
        return "err:commands-missing(%d of %d)" % (len(prog.commands), len(asked))
    for (rn, c), name in zip(prog.commands.items(), asked):
        args = ",".join("arg(%s,%s,%s)" % (enc_str(a.name), "-" if isinstance(a, ListArgument) else a.lineno, _load_val(a if isinstance(a, ListArgument) else a.value))
                        for a in c.arguments)
        parts.append("cmd(%s,%s,%s,[%s])" % (enc_str(c.result_name if c.result_name == rn else "%s/%s" % (rn, c.result_name)), enc_str(name), c.lineno, args))
    return "ok " + " ".join(parts)


def expected_load(src, version=None):
    """expected outcome of real_load, or None when the text is outside this oracle (EEMS 2.0 forms are converted first - C16; repeated argument names)"""
    from mpilot.parser.parser import Parser
    from mpilot.utils import EEMS_COMMANDS
    import warnings
    try:
        with warnings.catch_warnings():
            warnings.simplefilter("ignore")
            tree = Parser().parse(src)
    except SyntaxError:
        return "syntax"
    except Exception:
        return None
    # (the syntax version is taken from the model's reading of the text when given: a parser that mistakes a file's version is what this oracle is for)
    if (tree.version if version is None else version) != 3 or any(c.command in EEMS_COMMANDS or c.result_name is None for c in tree.commands):
        return None
    if any(len(set(a.name for a in c.arguments)) != len(c.arguments) for c in tree.commands):
        return None                 # an argument given twice: the program keeps one of them (which one is not part of this property)
    names = [c.result_name for c in tree.commands]
    if len(set(names)) != len(names):
        return "err:DuplicateResult"
    return project(tree)


def normalise_model(ans):
    """the model prints exact decimals: round them to doubles the way float(text) does"""
    import re

    def repl(m):
        try:
            x = float(Fraction(m.group(1)))
            return "f:" + (0.0 if x == 0 else x).hex()        # a tiny negative decimal underflows to -0.0: the sign of zero is normalised on both sides
        except (OverflowError, ValueError, ZeroDivisionError):
            return "f:?"
    out = re.sub(r"f:(-?\d+(?:/\d+)?)", repl, ans)
    # a decimal beyond the range of doubles (float() gives inf): the model holds finite values only
    return "outside" if "f:?" in out else out


def model_line(src):
    return "parse " + enc_str(src)


# ---------------------------------------------------------------- generators

ATOMS = ['A', 'B1', '_x', 'Cmd', 'True', 'False', '5', '-3', '+7', '007', '1.5', '.5', '2.', '-1.e3', '1e5', '"s"', "'t'", '"a b"', '"a\\nb"', 'x.y', 'é',
         'a-b', '/p/q.txt', '%z', '=', '=', '(', ')', '(', ')', '[', ']', ',', ',', ':', ' ', ' ', '\n', '\t', '# c\n', '\r\n', '"', "'", '\\', '"q\\""',
         '5abc', '1.5x', '- ', '.', '"é☃"', "'\\t\\x41\\u00e9'", '"\\q"', '"\\x4"', "'a\\\nb'", '"multi\nline"', '1.50', '0.10', '12.', '☃', '\r', '-0.', '-0.0', '-.0', '9007199254740993', '777777777777777777777777777777777777777777777777777777777777777777777777777777777777777777777777777777777777777777777777777777777777777777777777777777777777777777777777777777777777777777777777777777777777777777777777777777777777777777777777777777777777777777777777777777777777777777777777777777777777777777777777777777777777777777', '-0e3', '-0', '+0.0', '0.', '-0.0e-2']


def rand_tokens(rng):
    return ''.join(rng.choice(ATOMS) for _ in range(rng.randint(1, 14)))


VALUES = ['Foo', 'foo bar', '5', '-2', '1.25', '.5', '1.', '"q s"', "'q'", 'True', 'false', 'C:\\a\\b', 'a:b:c', '5abc', '5 abc', '1.5 x', 'x 5 y', 'é x', 'x-1',
          'a.b c', '007', '+5', '1e5', '1.e5', 'x\n y', '%a', '"multi\nline"', '5:6', 'a:5', '5:a', '"esc \\" \\\\ \\n"', "'it\\'s'", '"snow ☃ \\t"', '0.125', '100.',
          '"C:\\\\temp\\\\new.csv"', '"\\101\\x41"', '1.50x', '2.x', 'http://x.y:80/z', '"\\u2603"', "''", '""', '-0.0', '-0.x', '-0.0 m', '-0 x', '+0.0z', '-0e3q']


def rand_value(rng, d=0):
    r = rng.random()
    if d < 3 and r < 0.2:
        n = rng.randint(0, 3)
        sep = rng.choice([',', ', ', ' ,\n '])
        return '[' + sep.join(rand_value(rng, d + 1) for _ in range(n)) + (rng.choice(['', ',']) if n else '') + ']'
    if d < 2 and r < 0.3:
        n = rng.randint(1, 3)
        return '[' + ', '.join(rng.choice(['K', '"k k"', 'a b', '5x', 'k1', 'K']) + ': ' + rng.choice(['v', '"v w"', '5', '1.5', 'http://x.y:80/z', 'a b', '5 x'])
                               for _ in range(n)) + rng.choice(['', ',']) + ']'
    return rng.choice(VALUES)


def rand_prog(rng):
    out = []
    for _ in range(rng.randint(1, 4)):
        if rng.random() < 0.15:
            out.append(rng.choice(['\n', '# comment\n', '  \n', '\r\n']))
        res = rng.choice(['A', 'B', 'Res_1', 'x'])
        cmd = rng.choice(['Sum', 'EEMSRead', 'READ', 'C'])
        args = [rng.choice(['P', 'Q', 'InFieldNames']) + rng.choice(['=', ' = ', ' =\n  ']) + rand_value(rng) for _ in range(rng.randint(0, 3))]
        sep = rng.choice([',', ', ', ',\n   ', ' # c\n ,'])
        body = '(' + rng.choice(['', '\n  ']) + sep.join(args) + (rng.choice(['', ',']) if args else '') + rng.choice(['', '\n']) + ')'
        head = (res + rng.choice([' = ', '=', ' =\n']) + cmd) if rng.random() < 0.85 else cmd
        out.append(head + body + rng.choice(['\n', ' ', '\n\n', '# t\n', '', '\r\n']))
    return ''.join(out)


def mutate(rng, s):
    if not s:
        return s
    i = rng.randrange(len(s))
    op = rng.random()
    if op < 0.4:
        return s[:i] + s[i + 1:]
    if op < 0.7:
        return s[:i] + rng.choice('()[],:=#"\' \n5a.\\') + s[i:]
    return s[:i] + s[i] + s[i:]
