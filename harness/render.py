"""Abstract programs and their concrete renderings (layout choices), with the true line of every node recorded."""
from __future__ import print_function

from .common import enc_str

ID_START = "abcdefghijklmnopqrstuvwxyzABCDEFGHIJKLMNOPQRSTUVWXYZ_"
ID_CONT = ID_START + "0123456789"


class Val(object):
    """abstract value: kind in int, float, str, list, dict; how: preferred concrete form for strings; for numbers the spelling to use (`1.00`, `+1`, `-0.`) or None"""

    def __init__(self, kind, v, how=None):
        self.kind, self.v, self.how = kind, v, how


def rand_ident(rng, maxlen=8):
    s = rng.choice(ID_START) + "".join(rng.choice(ID_CONT) for _ in range(rng.randrange(0, maxlen)))
    return s


STRING_POOL = ["x", "abc", "a b", "two  spaces", " lead", "trail ", "", "it's", 'say "hi"', "back\\slash", "C:\\temp\\new.csv", "tab\there", "nl\nhere",
               "é", "☃ snow", "mixed é☃\\t", "comma, colon: eq= hash# (paren) [brack]", "#notcomment", "007", "1.5", "True", "-5", "a:b", "http://x.y:80/z",
               "/abs/path/file.txt", "rel/path.csv", "%percent", "x.y", "a-b", "\\1", "D:\\surveys\\2019\\07\\p.csv", "end\\", "q'", '"', "'", "\r", "a\r\nb",
               "\x41\u00e9", "very long " * 5, "1e5", "1e-05", "\\u2603", "\\N", "nul\\0",
               "\U0001F600 grin", "\U00020BB7野家", "math \U0001D49C", "\uffff edge \U00010000", "50\\% cover", "\\\\server\\share\\x", "C:\\path\\data\\sites.gdb",
               "vt\x0bff\x0cfs\x1cgs\x1drs\x1e", "nel\x85ls\u2028ps\u2029end",
               "It\u2019s dry", "the \u201ccore\u201d area", "\u2018single\u2019", "Dry season", "Dry  season", "a b", "a  b", "a\tb", "# c"]


# content of quoted strings written over several file lines: blanks, tabs and other white space right before a line break inside the quotes are content
# (a tool that tidies line ends before parsing changes them), as are blank lines inside the string and blanks at its start and end
MULTILINE_POOL = ["first line   \nsecond line\t\nthird", "a \nb", "c\t\n", "Slope, \n  in percent", " \n ", "ends in a break\n", "\nstarts with one", "two\n\nbreaks  \n\n  and blanks",
                  "tab\t\ttab\t\n\tnext", "x \t \ny", "vt\x0b\nff\x0c\nnbsp\xa0\nem\u2003\nend", "no blank before\nthe break", "é \n☃\t\nü", "#  \n# looks like comments \n", "k: v, \n[1, 2] = ( \n",
                  "only blanks at the very end   ", "one \n" * 12 + "last"]


def is_raw_safe(s, q):
    """can be written between quotes `q` as it is - line breaks and tabs included - and is read back as exactly this text"""
    return "\\" not in s and q not in s and "\r" not in s


def is_ident(s):
    return len(s) > 0 and s[0] in ID_START and all(c in ID_CONT for c in s)


PLAIN_POOL = ["../data/inputs/slope-m.csv", "%abc", "x.y", "a-b", "./rel/path.txt", "émile", "name.ext", "/abs/dir/file.nc", "a.b.c", "~user", "x+y", "a/b", "☃", "*.csv", "-x", "\u2018x\u2019", "O\u2019Brien", "\u201cdata.csv\u201d"]


def is_bare_safe(s):
    """an unquoted spelling that the grammar reads back as exactly this text: no blanks, delimiters or digits"""
    return is_ident(s) or (len(s) > 0 and not any(c in "#:,=()[]\"'\r\n \t0123456789" for c in s))


FULL_PRECISION = [0.3333333333333333, 0.30000000000000004, 0.9999999999999999, 3.141592653589793, 2.718281828459045, 1.0000000000000002, -0.1000000000000000055,
                  123456789.12345679, 1e-07, 1.7976931348623157e308, 2.2250738585072014e-308, 5e-324, 6.02214076e23, 1e22, 1e23, 9007199254740993.0, 0.1, 0.7, 1 / 3.0,
                  2.0 / 3, 4.35, 1.1 * 1.1, 100 * 1.1, 1e16, 123456789012345680.0, 0.000123456789012345678]


def rand_float(rng):
    """decimals a program may hold: short ones, ones that need all 16-17 significant digits, random doubles of every magnitude"""
    import struct
    r = rng.random()
    if r < 0.3:
        return rng.choice([0.5, -1.25, 3.0, 100.0, 0.125, -0.001, 2.5, 1234.5678])
    if r < 0.55:
        return rng.choice(FULL_PRECISION) * rng.choice([1, 1, -1])
    if r < 0.8:
        return (rng.random() - 0.5) * 10.0 ** rng.randint(-6, 9)
    while True:
        x = struct.unpack("<d", struct.pack("<Q", rng.getrandbits(64)))[0]
        if x == x and abs(x) != float("inf"):
            return x


def float_text(x):
    """repr, with a decimal point in the mantissa (the grammar's decimals have one): 1e-07 -> 1.0e-07"""
    r = repr(x)
    if "e" in r and "." not in r.split("e")[0]:
        m, e = r.split("e")
        r = m + ".0e" + e
    return r


def rand_scalar(rng):
    r = rng.random()
    if r < 0.2:
        return Val("int", rng.choice([0, 1, -1, 7, 42, -300, 10 ** 12, 5, 2 ** 53 + 1, -(2 ** 53) - 1, 9223372036854775807, 10 ** 30 + 7,
                                      9007199254740993, int("9" * 400), -int("123456789" * 40)]))
    if r < 0.4:
        return Val("float", rand_float(rng))
    if r < 0.5:
        return Val("str", rand_ident(rng), how="bare")
    if r < 0.6:
        return Val("str", rng.choice(PLAIN_POOL), how="bare")
    s = rng.choice(STRING_POOL)
    return Val("str", s, how=rng.choice(["dq", "sq"]))


def deep_val(rng, depth):
    """a list nested `depth` deep with few leaves: many brackets per token (stresses recursion budgets)"""
    v = rand_scalar(rng) if rng.random() < 0.7 else Val("list", [])
    for _ in range(depth):
        v = Val("list", [v] if rng.random() < 0.7 else [v, rand_scalar(rng)])
    return v


def rand_val(rng, depth=0, allow_dict=True):
    r = rng.random()
    if depth == 0 and r < 0.03:
        return deep_val(rng, rng.randrange(4, 14))
    if depth < 4 and r < 0.18:
        return Val("list", [rand_val(rng, depth + 1, allow_dict=False) for _ in range(rng.randrange(0, 4))])
    if allow_dict and depth < 2 and r < 0.28:
        n = rng.randrange(1, 4)
        keys = []
        while len(keys) < n:
            k = rng.choice(["K", "key two", "k1", "Units", "é", 'q"k', "a:b", "5x"])
            if k not in keys:
                keys.append(k)
        return Val("dict", [(k, rand_scalar(rng)) for k in keys])
    return rand_scalar(rng)


def rand_ast(rng, max_cmds=8):
    cmds = []
    for i in range(rng.randrange(1, max_cmds + 1)):
        args = []
        names = set()
        for _ in range(rng.randrange(0, 5)):
            n = rand_ident(rng, 6)
            if n in names:
                continue
            names.add(n)
            args.append((n, rand_val(rng)))
        cmds.append((rand_ident(rng, 6) + str(i), rand_ident(rng, 8), args))
    return cmds


# ---------------------------------------------------------------- rendering

def quote(s, q):
    out = []
    for ch in s:
        if ch == "\\":
            out.append("\\\\")
        elif ch == q:
            out.append("\\" + q)
        elif ch == "\n":
            out.append("\\n")
        elif ch == "\r":
            out.append("\\r")
        elif ch == "\t":
            out.append("\\t")
        else:
            out.append(ch)
    return q + "".join(out) + q


class Layout(object):
    """random but reproducible layout choices"""

    def __init__(self, rng, newline="\n", wild=True, one_line=False, split_eq=False):
        self.rng = rng
        self.nl = newline
        self.wild = wild
        self.one_line = one_line          # the whole program on one line: blanks vary (when wild), no line break, no comment, commands separated by a blank
        self.split_eq = split_eq          # every argument's value starts on a later line than `Name =`: a line break, blank lines, a trailing comment or a comment line after the `=`

    def after_eq(self):
        return self.rng.choice(["", " ", "\t"]) + self.rng.choice(["", "", self.nl, self.nl * 2, "# the value follows", " # c = ( [" + self.nl + "  # more"]) + self.nl + self.rng.choice(["", "    ", "\t"])

    def ws(self, allow_nl=False):
        r = self.rng.random()
        if not self.wild or r < 0.5:
            return ""
        if r < 0.8:
            return self.rng.choice([" ", "  ", "\t"])
        if self.one_line:
            return " "
        if allow_nl and r < 0.93:
            return self.nl + self.rng.choice(["", "  ", "\t"])
        if allow_nl:
            return " # c" + self.rng.choice(["", " = ( [", " é"]) + self.nl + " "
        return " "


class Renderer(object):
    def __init__(self, layout):
        self.lay = layout
        self.out = []
        self.line = 1

    def emit(self, text):
        self.out.append(text)
        # line breaks as the lexer counts them (CRLF is one): a string written raw over several lines holds bare \n whatever the file's line ends are
        self.line += text.count("\n") + text.count("\r") - text.count("\r\n")

    def gap(self, allow_nl=True):
        self.emit(self.lay.ws(allow_nl))

    def scalar(self, v):
        if v.kind == "int":
            self.emit(v.how or str(v.v))
        elif v.kind == "float":
            self.emit(v.how or float_text(v.v))
        else:
            how = v.how
            if how == "bare" and not is_bare_safe(v.v):
                how = "dq"
            if how in ("raw-dq", "raw-sq"):
                # written between the quotes as it is (line breaks, tabs, trailing blanks on its lines) when that is possible; with escapes otherwise
                q = '"' if how == "raw-dq" else "'"
                self.emit(q + v.v + q if is_raw_safe(v.v, q) else quote(v.v, q))
            elif how == "bare":
                self.emit(v.v)
            else:
                self.emit(quote(v.v, '"' if how == "dq" else "'"))

    def value(self, v, tree):
        """emits v; appends expected (line, canonical) info to tree"""
        line = self.line
        if v.kind == "list":
            self.emit("[")
            items = []
            for i, x in enumerate(v.v):
                self.gap()
                items.append(self.value(x, tree))
                self.gap()
                if i + 1 < len(v.v) or self.lay.rng.random() < 0.25:
                    self.emit(",")
            self.gap()
            self.emit("]")
            return "e(%d,l[%s])" % (line, ",".join(items))
        if v.kind == "dict":
            self.emit("[")
            items = []
            for i, (k, x) in enumerate(v.v):
                self.gap()
                kl = self.line
                kv = Val("str", k, how=self.lay.rng.choice(["dq", "sq", "bare"]))
                self.scalar(kv)
                self.gap(False)
                self.emit(":")
                self.gap(False)
                self.scalar(x)
                items.append((k, "e(%d,%s)" % (kl, canon_scalar(x))))
                self.gap()
                if i + 1 < len(v.v) or self.lay.rng.random() < 0.25:
                    self.emit(",")
            self.gap()
            self.emit("]")
            # the parser builds the dict right to left: first pair ends up last
            items = list(reversed(items))
            return "e(%d,d{%s})" % (line, ",".join("%s=%s" % (enc_str(k), e) for k, e in items))
        self.scalar(v)
        return "e(%d,%s)" % (line, canon_scalar(v))

    def program(self, ast):
        parts = []
        for res, cmd, args in ast:
            # blank lines / comment lines before a command
            while self.lay.wild and not self.lay.one_line and self.lay.rng.random() < 0.3:
                self.emit(self.lay.rng.choice(["", "   ", "# comment line", "#", "\t# x = y(z)"]) + self.lay.nl)
            self.emit(res)
            self.gap()
            self.emit("=")
            self.gap()
            cl = self.line
            self.emit(cmd)
            self.gap(False)
            self.emit("(")
            aparts = []
            for i, (name, v) in enumerate(args):
                self.gap()
                al = self.line
                self.emit(name)
                self.gap()
                self.emit("=")
                if self.lay.split_eq:
                    self.emit(self.lay.after_eq())
                else:
                    self.gap()
                e = self.value(v, None)
                aparts.append("arg(%s,%d,%s)" % (enc_str(name), al, e))
                self.gap()
                if i + 1 < len(args) or self.lay.rng.random() < 0.25:
                    self.emit(",")
            self.gap()
            self.emit(")")
            self.emit(" " if self.lay.one_line else self.lay.rng.choice([self.lay.nl, self.lay.nl, " " + self.lay.nl, " # trailing" + self.lay.nl, self.lay.nl * 2]) if self.lay.wild else self.lay.nl)
            parts.append("cmd(%s,%s,%d,[%s])" % (enc_str(res), enc_str(cmd), cl, ",".join(aparts)))
        return "".join(self.out), "ok v3 " + " ".join(parts)


def canon_scalar(v):
    if v.kind == "int":
        return "i:%d" % v.v
    if v.kind == "float":
        return "f:" + (0.0 if v.v == 0 else float(v.v)).hex()        # (the canonical text does not carry the sign of zero - see parsing.canon_expr; `exact` below does)
    return "s:" + enc_str(v.v)


def render(ast, rng, newline="\n", wild=True, one_line=False, split_eq=False):
    """returns (source text, expected canonical parse tree with the true lines)"""
    return Renderer(Layout(rng, newline, wild, one_line, split_eq)).program(ast)


def multiline_asts(rng, command="Cmd"):
    """abstract programs whose quoted strings are written over several file lines (MULTILINE_POOL): as an argument, as list items (also nested), as tuple values,
    several in one command and in consecutive commands, next to numbers and plain words"""
    def s(text=None):
        return Val("str", rng.choice(MULTILINE_POOL) if text is None else text, rng.choice(["raw-dq", "raw-sq"]))
    out = []
    for k, text in enumerate(MULTILINE_POOL):
        out.append([("S%d" % k, command, [("Text", s(text))]), ("After%d" % k, command, [("P", Val("int", k))])])
        out.append([("L%d" % k, command, [("Items", Val("list", [s(text), s(), Val("list", [s(text), Val("int", 1)]), Val("str", "plain", "bare")])), ("Q", Val("float", 0.5))])])
        out.append([("T%d" % k, command, [("Text", Val("str", "x", "dq")), ("Metadata", Val("dict", [("Description", s(text)), ("Units", s()), ("k", Val("str", "v", "bare"))]))])])
    for k in range(6):
        out.append([("M%d_%d" % (k, i), command, [("Text", s()), ("Items", Val("list", [s() for _ in range(rng.randrange(0, 4))])), ("Other", s())][:rng.randrange(1, 4)]) for i in range(rng.randrange(1, 4))])
    return out


# ---------------------------------------------------------------- numbers of equal value and different kind, side by side

def _n(kind, v, how=None):
    return Val(kind, v, how)


# each group: values that compare equal (and hash alike) in Python although they are different values of the command language - an integer and a decimal,
# a decimal zero and its negative, different spellings of one number - plus texts that look like them (quoted digits, the bare word True)
KIND_GROUPS = [
    [_n("int", 1), _n("float", 1.0), _n("float", 1.0, "1.00"), _n("int", 1, "+1"), _n("float", 1.0, "1."), _n("float", 1.0, "10.0e-1"), Val("str", "1", "dq"), Val("str", "1.0", "sq"), Val("str", "True", "bare")],
    [_n("int", 0), _n("float", 0.0), _n("float", -0.0, "-0.0"), _n("int", 0, "-0"), _n("float", 0.0, "0."), _n("float", -0.0, "-0."), _n("float", 0.0, ".0"), _n("float", -0.0, "-.0"), _n("float", -0.0, "-0.0e3"),
     _n("int", 0, "+0"), _n("float", 0.0, "+0.0"), Val("str", "False", "bare"), Val("str", "0", "dq")],
    [_n("float", -0.0, "-0.0"), _n("float", 0.0), _n("int", 0)],
    [_n("int", 2), _n("float", 2.0), _n("float", 2.0, "2.00"), _n("float", 2.0, "0.2e1"), Val("str", "2", "sq")],
    [_n("float", -3.0), _n("int", -3), _n("float", -3.0, "-3.00"), _n("float", -3.0, "-30.0E-1")],
    [_n("int", 10), _n("float", 10.0), _n("float", 10.0, "1.0e1"), _n("int", 100), _n("float", 100.0, "1.0e2"), _n("float", 100.0)],
    [_n("int", 2 ** 53), _n("float", 9007199254740992.0), _n("int", 2 ** 53 + 1), _n("float", 9007199254740992.0, "9007199254740992.00")],
    [_n("float", 5.0), _n("int", 5), _n("int", 7), _n("float", 7.0), _n("int", 5), _n("float", 5.0, "5.")],
]


def kind_mix_asts(rng):
    """abstract programs that put the members of one group next to each other: in a list, in nested lists, in a tuple, in separate arguments of one command
    and in two commands - each in the listed order, reversed and shuffled (whichever spelling comes first must not decide what the later ones are read as)"""
    out = []
    for g, group in enumerate(KIND_GROUPS):
        shuffled = list(group)
        rng.shuffle(shuffled)
        for o, vals in enumerate((list(group), list(reversed(group)), shuffled)):
            tag = "g%d_%d" % (g, o)
            nested = Val("list", [Val("list", [vals[0]]), Val("list", [vals[1], Val("list", list(vals[2:]))])] + [Val("list", [v]) for v in vals[1:3]])
            out.append([("L" + tag, "Cmd", [("P", Val("list", list(vals)))])])
            out.append([("N" + tag, "Cmd", [("P", nested), ("Q", vals[-1])])])
            out.append([("T" + tag, "Cmd", [("P", Val("dict", [("k%d" % i, v) for i, v in enumerate(vals)]))])])
            out.append([("A" + tag, "Cmd", [("p%d" % i, v) for i, v in enumerate(vals)])])
            out.append([("C%s_%d" % (tag, i), "Cmd", [("P", v)] if i % 2 else [("P", v), ("Q", Val("list", [vals[0], v]))]) for i, v in enumerate(vals[:4])])
    # long lists (70 / 150 entries) mixing the kinds of a few small numbers
    pool = [v for group in KIND_GROUPS[:4] for v in group if v.kind != "str"]
    for n in (70, 150):
        out.append([("Long%d" % n, "Cmd", [("Weights", Val("list", [rng.choice(pool) for _ in range(n)])), ("Scale", rng.choice(pool))])])
    return out


# ---------------------------------------------------------------- whole numbers that a double cannot hold

def big_int_asts(rng):
    """abstract programs holding whole numbers beyond what a double represents exactly (ids, time stamps, int64 / uint64 missing-value markers, long runs of digits):
    around every power of two from 2**53 to 2**70 and 2**100 / 2**1024, 10**n + 7, runs of 17 to 1000 digits; each as written, negative, with a `+`, zero-padded; as an
    argument, a list item (also nested, next to decimals of the same size), a tuple value.  An integer is an integer with every digit, however long it is."""
    nums = [2 ** 53 - 1, 2 ** 53, 2 ** 53 + 1, 2 ** 63 - 1, 2 ** 63, 2 ** 64 - 1, 2 ** 64 + 1, 10 ** 30 + 7, 20240930123456789, 99999999999999999999, 2 ** 100 + 1, 2 ** 1024 - 1, 2 ** 1024 + 1]
    nums += [2 ** k + rng.choice([-1, 1, 3]) for k in range(54, 71)] + [10 ** n + 7 for n in (16, 17, 19, 22, 40, 308, 309)]
    nums += [int("".join(rng.choice("0123456789") for _ in range(n - 1)) + rng.choice("13579")) + 10 ** (n - 1) for n in (17, 18, 20, 25, 40, 100, 310, 400, 1000)]
    vals = []
    for k, n in enumerate(nums):
        vals += [Val("int", n), Val("int", -n), Val("int", n, ["+%d" % n, "000%d" % n, "-0%d" % n][k % 3]) if k % 3 < 2 else Val("int", -n, "-0%d" % n)]
    out = []
    for k, v in enumerate(vals):
        w, x = vals[(k * 7 + 3) % len(vals)], vals[(k * 5 + 1) % len(vals)]
        near = Val("float", float(v.v), float_text(float(v.v))) if abs(v.v) < 10 ** 300 else Val("float", 1.5)
        shape = k % 4
        if shape == 0:
            out.append([("A%d" % k, "Cmd", [("MissingVal", v), ("Other", w)])])
        elif shape == 1:
            out.append([("L%d" % k, "Cmd", [("Ids", Val("list", [v, near, w, Val("int", 1), x]))])])
        elif shape == 2:
            out.append([("T%d" % k, "Cmd", [("Metadata", Val("dict", [("Serial", v), ("Stamp", w), ("Scale", near)]))])])
        else:
            out.append([("N%d" % k, "Cmd", [("P", Val("list", [Val("list", [v]), Val("list", [Val("list", [w, v]), x])])), ("Q", v)]), ("After%d" % k, "Cmd", [("P", x)])])
    return out


def exact(ast):
    """the program with every number's kind and exact value (sign of zero included): what `parsing.exact_parse` has to return for any rendering of it"""
    def val(v):
        if v.kind == "list":
            return [val(x) for x in v.v]
        if v.kind == "dict":
            return {"tuple": sorted([k, val(x)] for k, x in v.v)}
        return "%s:%s" % (v.kind, v.v if v.kind == "str" else repr(v.v))
    return [[res, cmd, [[n, val(v)] for n, v in args]] for res, cmd, args in ast]
