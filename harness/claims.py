"""What each registered check claims (input of mk_manifest.py)."""
NOT_CLAIMED = {}
CHECKS = {}


def claim(pid, ref, technique, text, note, category="proof"):
    CHECKS[pid] = dict(ref=ref, technique=technique, text=text, note=note, category=category)


TB = ("Trusted: Lean 4.33 kernel, axioms propext/Classical.choice/Quot.sound only (audited by #print axioms each run; no native_decide/bv_decide/sorry); "
      "Mathlib lemmas; the hand-written model's faithfulness is established only by the differential correspondence run on each check "
      "(bounded by generator quality, tolerance 1e-9); numpy.ma primitives are modelled, not verified; values are exact rationals "
      "(IEEE rounding, overflow, NaN, int64 wrap-around not exhibited); sqrt is a parameter of the model. ")

claim("C04", "DESIGN.md 5/C04", "Lean 4 theorem over the executable model + differential correspondence + range oracle",
      "Theorem MPilot.C04.fuzzy_range: for all 14 fuzzy producers, every input list, every parameter value and every sqrt, every non-missing "
      "result cell of the model's exec lies in [-1,1] (no hypotheses). The model's 14 cases are tied to the execute bodies by running both on "
      "the same generated cases (parameters deliberately outside the fuzzy range) and every implementation result is range-checked.",
      TB)

claim("C03", "DESIGN.md 5/C03", "Lean 4 non-interference theorem over the executable model + differential correspondence + mask/payload-twin oracles",
      "Theorem MPilot.C03.payload_irrelevant: for all 31 data commands, any two input lists that look the same (element type, shape, "
      "missing cells, non-missing values) give the same error or visibly equal results, whatever is stored beneath missing cells - "
      "whole-array statistics included; mask_superset (all 31 commands: a result has a cell for every input cell and is missing wherever any input is) and "
      "single_input_mask_exact (the 16 single-input commands add no missing cell unless the mapping is undefined for the whole array). On the implementation every case is also run "
      "with other payloads beneath the missing cells, NaN and infinities included, through the whole pipeline, and with zero weights at every position.",
      TB)
claim("C05", "DESIGN.md 5/C05 and 9", "Lean 4 theorems (shape; equivariance under any common rearrangement of the cells) + differential correspondence + permutation/reshape/layout twin oracles",
      "Theorems in MPilot.C05: shape_preserved - every data command that succeeds returns the shape of its first input, any rank; rearr_equivariant - applying one rearrangement "
      "(any permutation of the cell positions and/or a new shape) to every input gives the original outcome rearranged in exactly the same way (same error, or the same cells at the new "
      "positions under the new shape), for all 31 commands incl. the whole-array statistics (min, max, mean, standard deviation, mean-to-mid points: proved invariant under permutation). "
      "The real bodies are tied to the model by the correspondence on rank 1-3 shapes, grids enumerating all value pairs, and twin runs (permutation, reshape, Fortran layout) on the implementation. "
      "MPilot.C05T (Props/C05Tile): the whole-array statistics of a field repeated k times are those of the field (minL_rep, maxL_rep, meanL_rep, varL_rep), hence every statistic-driven command - Normalize, NormalizeZScore, CvtToFuzzyZScore, NormalizeMeanToMid, CvtToFuzzyMeanToMid (mtmStats_rep: the five statistics, zeros ignored or not), NormalizeCurveZScore, CvtToFuzzyCurveZScore, CvtToFuzzy with thresholds given or taken from the data - and the curve commands give the repeated result on the repeated field (normalize_tile, zscore_commands_tile, meanToMid_commands_tile, curveZScore_commands_tile, cvtToFuzzy_tile, curve_commands_tile): nothing depends on how large a grid is (on the implementation: the tiled-field twin, 10^4-10^5 cells, all commands). Memory layout (strides) is not in the model: decided by the layout twin only. In the model a command is a function of its own inputs and parameters (no program state); on the implementation "
      "this is checked by the pipeline twin and the shared-program twin (the same command as the n-th of one long-lived Program that evaluated other shapes and types before it).",
      TB)
claim("C06", "DESIGN.md 5/C06", "Lean 4 theorems (definitions, algebra, order invariance) + exhaustive-lattice correspondence + reference/algebra oracles",
      "Theorems in MPilot.C06: Or/And cell = max/min of the column; Not negates, is an involution; De Morgan; And <= Union <= Or; xor stays in range; "
      "selected union with k = all is the mean and with k = 1 the greatest (Truest) / least (Falsest) value of the column, i.e. Or / And; Or, And, Union, XOr, SelectedUnion give the same outcome for every input order (all lists, all sizes). "
      "All lattice tuples for <= 3 inputs are enumerated against model and exact reference on every run.",
      TB)
claim("C07", "DESIGN.md 5/C07", "Lean 4 theorems (cell definitions, commutativity incl. failure, error order) + differential correspondence + reference oracles",
      "Theorems in MPilot.C07: Sum/Multiply/Minimum/Maximum cell definitions with mask = union; AMinusB/ADividedByB cells; division by zero masks and never "
      "fails; Sum, Multiply, Minimum, Maximum, Mean give the same error or visibly equal results for every permutation of their inputs; EmptyInputs, "
      "MixedArrayShapes, MismatchedWeights raised in the bodies' order; mean_cell, weightedSum_cell (each cell is the weighted sum of the column, missing where any input is), "
      "weightedSum_perm / weightedMean_perm (inputs and weights permuted alongside give the same outcome). The element-type rule and wrap-around of narrow integer types are decided on the implementation "
      "(type-mix enumeration, narrow/unsigned integer twins, pipeline twins with whole-valued float weights); unsigned A - B is known finding F18.",
      TB)
claim("C08", "DESIGN.md 5/C08", "Lean 4 theorems (threshold map, inverse, monotonicity, lookup, curve order independence, counterpart equality) + correspondence + mapping oracles",
      "Theorems in MPilot.C08: CvtToFuzzy maps true->+1, false->-1, is the line between and clamped outside, monotone/antitone; CvtFromFuzzy inverts it; "
      "CvtToBinary threshold test; category lookup hit/miss; sorted control points are independent of listing order (curve_perm_invariant); curve flat below the first point; "
      "each CvtToFuzzy variant is definitionally the clamp of its Normalize counterpart; curveAt_interior / curveAt_above / normalizeCurve_spec: for distinct raw values the sorted control points are strictly "
      "increasing and every cell lies on the line through the two consecutive points around it (flat beyond the ends), shape and missing cells kept. normalizeZScore_spec / lin_zscore / meanL_eq / varL_eq: the z-score map uses the mean and "
      "population variance of the non-missing cells and sends each cell to the threshold line at its z-score, limited to the range (for any deviation function sqrt with sqrt var != 0; that the driver's sqrt is the square root is not proved). "
      "mtmStats_spec / meanToMid_spec / curveZScore_spec: the mean-to-mid and curve-by-z-score commands return the piecewise-linear curve through the control points derived from the five statistics (minimum, maximum, mean, mean of the lower and of the upper part; zeros ignored or not) "
      "resp. from mean + z x deviation; cvtToFuzzy_meanToMid_curveZ_eq_clamp. On the implementation, on inputs that are binary fractions the conversions must return the exact value wherever it is one (thresholds to exactly +1 / -1 for every span 1-130).",
      TB + "z-score commands depend on sqrt: model parameter, driver instance = 20-digit rational root; cases within 1e-9 of a data-derived discontinuity are skipped and counted.")
claim("C09", "DESIGN.md 5/C09", "Lean 4 heap-model theorems (execH_preserves, execH_refines; history_preserves by induction over any history of executions) + before/after snapshots of every live array around every real execute",
      "Heap model execH makes aliasing (single-input Minimum/Maximum/FuzzyOr/FuzzyAnd return the input object) and the in-place clamp explicit. Theorem execH_preserves: one "
      "step leaves every existing object visibly unchanged provided fuzzy inputs are fuzzy values (C04); execH_refines: the result object is exec's result. "
      "MPilot.C09 (Props/C09Hist.lean): history_preserves / history_preserves_from - over ANY history of executions on the heap of live results (any commands, any of the objects, any order, any "
      "repetition, failing executions included) every object is visibly unchanged from the moment it exists on; the range premise of the aliasing pair is not assumed but discharged along the way "
      "(stepOp_ok: objects made by fuzzy producers are in range by C04.fuzzy_range and stay so, inRange_of_ArrR), the only premise being the typing discipline parameter validation enforces (Disc: the fuzzy pair is given fuzzy fields). "
      "Which bodies allocate fresh arrays is a modelling fact validated by the correspondence (aliasing facts + snapshots of inputs after each execute, sequences of up to 8 consumers).",
      TB)

claim("C20", "DESIGN.md 5/C20", "Lean 4 theorems by induction on the parameter tree + differential correspondence of clean and clean∘clean + type/purity oracles",
      "Theorems in MPilot.C20: clean_typed (documented type for every parameter class, lists item-wise), clean_err_is_param_error (a failing clean raises one of "
      "the seven parameter errors, never anything else), clean_idempotent (cleaning a cleaned value returns it; relative paths under an absolute working directory - "
      "the witness rel/rel/a.csv shows the premise is needed), integers stay integers, boolean forms. Determinism is definitional; purity (raw argument and program untouched) "
      "cannot be a theorem about a pure model and is decided by snapshot oracles on the real classes.",
      TB + "Python int()/float()/str() are modelled on ASCII text (sign, underscores, exponent); inf/nan, float and container text forms are outside the model (counted).")

PB = ("Trusted: Lean 4.33 kernel, axioms propext/Classical.choice/Quot.sound only (audited each run); Mathlib; the hand-written model of program.py/commands.py/params.py "
      "(load, pre-pass, cycle check, leaves, memoised pull evaluation, error wrapping) whose faithfulness is established only by the differential correspondence on "
      "generated scenarios (event log, outcome class and line); command bodies are abstracted as 'reads its referenced results in declared-input order, then computes' - "
      "validated for every built-in by the stub/recording wrappers; the interpreter's recursion limit is not modelled (fuel is unbounded in the theorems). ")
claim("C01", "DESIGN.md 5/C01", "Lean 4 induction over fuel and rank on the executable run-loop model + event-log correspondence with the real Program + counting oracles",
      "Theorems in MPilot.C01 for every acyclic program (rank function on reads), every value type and every computation: a successful Command.run keeps the invariant "
      "(no body entered twice, finishes = memo, balanced log, everything a command reads finished before it) - runCmd_ok, run_ok; every command is executed exactly once "
      "(run_executes_each_exactly_once, under the premise that directly referenced results are read by their consumer, which the correspondence checks for all built-ins); "
      "re-running or re-reading executes nothing (run_idempotent, result_memoised). MPilot.C01 (Props/C01Hist.lean), failures included: runCmd_any / run_any - EVERY outcome of Command.run / Program.run (finished, a failing body or input, "
      "a refused argument, an unknown name, a rejection before execution) keeps the failure-proof invariant FInv (finished commands recorded once, the log's finishes are exactly the recorded commands, inputs finished first) and only extends log and stored results; "
      "history_ok - after any sequence of run() calls and result reads over one acyclic program, each under its own behaviour of the bodies (a body may fail at one step and work at a later one), no command has completed twice, "
      "every completed command's inputs completed before it, and what any prefix of the history had stored is still stored unchanged (the memo of a prefix is a prefix of the final memo); result_after_history. "
      "Histories on the implementation include failed runs whose cause is removed, deep copies of the "
      "program between runs (a value in the model: the copy is the program), consumers added through the API with command objects as argument values, and a referenced command deleted and added again under its name after a failed run "
      "(the `del` step lives in the driver, outside the theorems). MPilot.C01 (Props/C01Edit.lean), programs that grow: edit_history_ok - over any history of run() calls, result reads AND commands added through the programming interface (grow = what the model's add_command does: addCommand_is_grow), each run or read under its own behaviour of the bodies, if the program reached at the end is acyclic then no command has completed twice, completed commands' inputs completed before them, every stored result belongs to a command of the program (Known: runCmd_known, run_known) and what any earlier point had stored is still stored unchanged; finv_grow, find?_grow, Ranked.shrink.", PB)
claim("C02", "DESIGN.md 5/C02", "Lean 4 theorems (the run computes a solution of the graph equations; solutions are unique) + replay of every real execute call on the model + invariance oracles",
      "MPilot.C02 (Props/C02Meta.lean): sol_unique_rel and metadata_inert - two models whose commands correspond one to one and differ only in the Metadata arguments (added, removed, changed, on any commands) compute the same result for every command, for bodies that do not read that argument (a fact about the execute bodies which the replay of every real execute call on the metadata-free model command establishes). Theorems in MPilot.C02: run_sol (after a successful run every memoised result equals compute applied to the results of the commands it reads), sol_unique "
      "(an acyclic graph has at most one such assignment: its evaluation), results_order_independent (any permutation of the commands gives the same results), "
      "results_unaffected_by_added_commands; data_feeds_data / data_list_feeds / data_wrong_fuzziness (any command declaring a data output of compatible fuzziness is accepted by a data input, directly or in a list, before and after it has run; the wrong fuzziness is refused with the specific error). Metadata never reaches compute of the data commands (DataCmd has no such field). Each real execute call made while running "
      "random typed EEMS models is replayed on the model's exec with its actual inputs; order/metadata/consumer invariance is evaluated on the real programs; every EEMSRead of a model "
      "is compared with the column its file holds at that moment (files are rewritten between models; values close to the missing-value marker are data); a 450-step model written in dependency order is evaluated, and two models with hand-computed results are run in all 120 orders of their commands; symmetric commands are relisted (bit-identical results for commands that order their inputs themselves, all 24 listings in directed models over measured decimals); "
      "models whose table holds a non-numeric cell at first are run again on the same Program after the table is repaired.", PB)
claim("C12", "DESIGN.md 5/C12", "Lean 4 iff-characterisations of load and pre-pass acceptance + fault-injection matrix correspondence + by-construction expectation oracles",
      "Theorems in MPilot.C12: addCommand_ok_iff (accepted by add_command iff result name fresh, required parameters present, no undeclared parameter unless extras allowed), "
      "addCommand_errors / unknown_command (specific error with the offender's line, in the code's order), prepassCmd_ok_iff (pre-pass accepts iff every declared argument cleans), "
      "prepassCmd_first_error, result_ref_ok_iff (a reference is accepted iff the result exists, has the required fuzziness and an accepted output kind), reject_no_effects "
      "(a pre-pass error returns with the state untouched). Whole models: prepass_ok_iff (the pre-pass accepts a model iff every declared argument of every command cleans), fromNodes_ok_iff (a file is loaded iff every command, in file order, "
      "names a command of the selected libraries and is accepted by add_command on top of what the commands before it built), run_validates_first (run either returns the pre-pass error, or the recursive-model error, each with the state untouched, or evaluates the leaves). "
      "On the implementation: loads right after a malformed text, additions refused by add_command and then corrected, a file that vanished since an earlier model was validated. Cleaning itself is characterised in C20.", PB)
claim("C13", "DESIGN.md 5/C13", "Lean 4 theorems on the error algebra of the model + boundary correspondence + exception-type oracle at from_source()/run() and CLI subprocess runs",
      "MPilot.C13 (Props/C13Run.lean): run_not_raw - whatever Program.run() ends with (a rejected argument, a circular model, a body or an input failing with any exception at all) the error that leaves run() is an MPilotError, inside the model's cleaning domain (prepass_not_raw, go_not_raw); run_rejection_declared - an error raised by the program layer itself (validation, cycle check) is an instance of a declared ProgramError class of the regenerated exception table. MPilot.C13E (Props/C13Err.lean), re-checked against Generated/ErrTable.lean (rewritten from the three exception modules each run): every_class_is_mpilot_error, program_errors_declared, eems_errors_declared, netcdf_errors_declared, load_errors_declared. Theorems in MPilot.C13: runCmd_not_raw (nothing but MPilotErrors leaves Command.run, whatever fails inside), fromNodes_not_raw, prepassCmd_not_raw (load and pre-pass raise "
      "MPilotErrors only, within the model's cleaning domain). A theorem ranges only over exception sources the model contains: new sources in the code are found by the correspondence "
      "(unpredicted outcome class = disagreement) and by the boundary oracle over the kind-confusion matrix, corrupted files, 300 CSV fault runs through the real bodies, and the CLI. "
      "The command-line tool itself is modelled (Model/Cli.lean: the lines it reads under universal newlines, the text it hands to the loader, standard error, exit status) - MPilot.C13Cli: mp_error_reported (an MPilot error gives exit status -1, "
      "no escaping exception, and the header line followed by the error's own problem/solution text on standard error), success_silent, missing_file_reported, other_exception_not_success; the real tool is compared with the model character by character on "
      "files of every line-end convention with a stand-in loader raising prepared errors (harness/clicorr.py) and on real faults.", PB)
claim("C14", "DESIGN.md 5/C14", "Lean 4 soundness proof of the depth-first cycle check + cycle/acyclic graph enumeration correspondence + rejection oracles",
      "Theorems in MPilot.C14: cycle_rejected_before_execution (a detected cycle makes run return RecursiveModelStructure with log and memo untouched), visit_sound / no_cycle_ranked "
      "(if the check reports no cycle the reference graph has a rank function - so a model with any reference cycle, self-reference included, is never accepted, and by C01 evaluation "
      "then terminates within fuel = number of commands); visit_complete / acyclic_accepted (completeness: a model whose reference graph has a rank function is never rejected; the "
      "check's fuel suffices by a pigeonhole on the search path). All digraphs on <= 3 commands, sampled larger ones, rings of built-in commands and cycles closed through the API after a run are compared with the real check.", PB)

XB = ("Trusted: Lean 4.33 kernel, axioms propext/Classical.choice/Quot.sound only (audited each run); the hand-written lexer+grammar model (a transcription of the algorithm "
      "validated against PLY on >450 000 generated texts, and re-compared on every run); PLY 3.11 and Python's re/unicode_escape are modelled, not verified; Python's \\d is "
      "modelled as ASCII digits; float texts are exact decimals (rounded to doubles only for comparison); the sign of zero and float texts in exponent range inside unquoted "
      "strings are outside the model (counted). ")
claim("C10", "DESIGN.md 5/C10 and 9", "Lean theorems: characters -> tokens -> program (parse_text) + differential correspondence of the real parser with the Lean lexer+grammar model + render/parse round-trip oracle",
      "Theorems in MPilot.C10: parse_text - a text made of token spellings (identifiers, integers, decimals with or without exponent, quoted strings of any content - escaped as the serializer writes them or written raw in single or double quotes, raw line breaks included and counted -, punctuation) separated by arbitrary layout "
      "(blanks, tabs, LF or CR LF, comments) whose tokens render a program (commands, named arguments, numbers, quoted and bare-identifier strings, lists nested to any depth, trailing commas or not) "
      "parses to exactly that program with every node on the line it starts on; built from lexS_gap / spells_* (character level, Lemmas/Lex, incl. lexAll_fuel: the lexer's recursion bound never loses a token) and "
      "program_renders (token level, mutual induction over values; it exposed and fixed an inadequate recursion budget of the model). NOT covered by the theorem, and decided by the correspondence and the "
      "round-trip oracle on the implementation only: unquoted strings holding digits or several words (multi-token values), unquoted tuple keys that are no identifiers (tuples with quoted or identifier keys and quoted, identifier, integer or decimal values are covered), EEMS 2.0 command form, and the "
      "rejection of malformed text other than the classes below (partial as proof for those). MPilot.C10R (Props/C10Reject.lean), malformed text is rejected: accepted_neutral - every token list the grammar accepts is free of lexer-error tokens and has its square brackets and parentheses "
      "properly nested and all closed (by induction over the mutually recursive expression / list / elements / tuple functions, arguments, commands, program) - hence error_token_rejected (an illegal character or a bad escape anywhere in the file makes the parser reject it, whatever surrounds it), "
      "unbalanced_rejected (a missing, surplus or crossed bracket or parenthesis), parse_ok_text, empty_rejected, bad_start_rejected. Covered since round 6: unquoted text that is no identifier and holds no digit - one PLAIN_STRING token (%abc, /p/q.txt, non-ASCII words) or an identifier run followed at once by one (x.y, a-b) - is read back as exactly that text when a delimiter follows (RVal.plain / RVal.idPlain in expression_renders, spells_plain, scanOne_plain); "
      "any quoted string with user-written escapes is one STRING token holding what the decoder stringValue yields, and escapes the decoder refuses are a syntax error (QBody, quoted_any, spells_quoted_any, quoted_bad_escape; that stringValue is Python's unicode_escape on Latin-1/backslashreplace text is tied by correspondence). The executable model is compared with Parser().parse on every run over renderings of random abstract programs under random layouts, their "
      "single-character mutations and token soups (whole tree with line numbers, or error class). Every accepted text is also loaded with the real Program.from_source (a library that serves every command name): "
      "result names, command names, lines, argument names, values with their kinds, nesting and tuples handed to the commands must be those of the parse, whatever was loaded earlier in the process (texts differing "
      "only in blanks inside strings or in a line break after a comment are loaded one after the other). Known finding F10 (unquoted multi-token strings) is re-run and listed.",
      XB)
claim("C11", "DESIGN.md 5/C11", "Lean theorems on line counting + differential correspondence incl. every line number + by-construction line oracles",
      "In the model a parse is a function of the text alone (history independence is definitional; the real Parser is compared after 0-3 earlier parses and earlier loads in the process). "
      "Theorems in MPilot.C11 state what the line of a token is (1 + line breaks before it, CRLF once, line breaks inside quoted strings counted); MPilot.C11X (Props/C11Exact.lean) lex_line_exact: for EVERY text with LF or CR LF line ends - well-formed or not, any arrangement of blank lines, comments, "
      "multi-line quoted strings - each token carries exactly 1 + the number of line feeds before the position at which it was scanned (scanOne_exact: each lexer rule consumes a prefix and advances the counter by its line feeds; countNewlines_eq_nl). "
      "MPilot.C13Cli: marks_offending_line (the line the command-line tool marks with --> is line n of the file for an error naming line n, between its neighbours in file order: excerpt_contiguous, context_indented), source_lines / fileLines_clean (the text handed to the loader has exactly the file's lines under LF, CRLF or CR line ends). Load-time and pre-pass errors carry the line of "
      "the offending command/argument: load_error_line / load_error_line_parsed (whatever file is loaded, a load error is CommandDoesNotExist, DuplicateResult or MissingParameters with the line of the first command that cannot be added, "
      "or NoSuchParameter with the line of that command's undeclared argument - never a line that belongs to nothing in the file), prepassCmd_error_line / prepass_error_line (a validation error of Program.run carries the line of the declared argument whose "
      "cleaning failed, with that failure's class), together with C12's addCommand_errors and prepassCmd_first_error. Every fault kind is injected at a known line (lists written over several lines included; an error without a line where the pinned code gives one is a failure); cycles and run-time errors of real bodies are checked too; "
      "one EEMSRead asked again while its file is repaired keeps naming the true file line.",
      XB)
claim("C15", "DESIGN.md 5/C15 and 9", "Lean theorems: serialize_parse_roundtrip (whole programs) + quote_roundtrip (every string) + character-exact correspondence of to_string() + load-back oracle",
      "Theorems: MPilot.C15P.serialize_parse_roundtrip - the text the serializer model writes for a program (commands in order, one argument per line, strings quoted, integers in decimal, references/booleans/None "
      "as words, lists to any depth) is parsed back as exactly that program: same commands, order, argument names and values, version 3, every node on the line the serializer put it on; built from valSeg/rowSeg/cmdSeg/progSeg "
      "(the text lexes to the expected tokens: integers via spells_toString_int, strings via MPilot.C15.quote_roundtrip for every string) and C10.program_renders. Metadata tuples are covered (values written as quoted text), and so are decimals (spells_positional: every terminating decimal of at most 400 places is printed in positional notation and read back as exactly "
      "that rational; that Python's repr(float) denotes the double it came from is trusted). Model/Serialize is compared character by character with Program.to_string() on every run (programs built from source and through add_command), "
      "and every serialised program is loaded back and compared argument by argument and by results on the implementation.",
      XB)
claim("C16", "DESIGN.md 5/C16", "Lean theorems over tables regenerated from the source (decide) + conversion-rule theorems + whole-pipeline correspondence + hand-mapped equivalence oracle",
      "Generated/Eems2Table.lean and Generated/Decls.lean are rewritten from mpilot.utils.EEMS_COMMANDS and the command registry on every run; table_total_except_known re-proves by kernel "
      "evaluation that every mapped name exists in both library sets (the two ScoreRange rows are the listed known finding, proved missing by scorerange_targets_missing). convertNode_spec, "
      "result_name_*, no_result_name_rejected, trigger, convert_mpilot_style state the translation rule. Whole files: convertAll_spec (conversion is the mapping applied command by command, in order), targets_not_keys (kernel evaluation on the regenerated table: no target is itself an EEMS 2.0 name), "
      "eems2_file_equiv / eems2_file_equiv_builtin (a file treated as EEMS 2.0 and the MPilot-syntax file whose commands are the mapped ones load - with any libraries, into any program - to the same program or the same error), "
      "eems2_results_equal (running the two is the same computation for any command semantics), eems2_unconvertible_rejected (a command without usable name rejects the whole file with a ProgramError on a line of the file); a concrete pair of files satisfying the premises is checked by kernel evaluation of the model's parser. The model's whole pipeline (parse, convert, load) is compared with from_source on random EEMS 2.0 "
      "and mixed files; each file is also compared with the MPilot file written by hand from the mapping rule (structure and results with the real bodies).", XB)

claim("C17", "DESIGN.md 5/C17", "Lean theorems on the column-reading logic + correspondence incl. a model of the csv reader/writer + order/type/mask/line oracles and bit-identity round trip",
      "MPilot.C17 (Props/C17Table.lean): written_table_records - the table EEMSWrite assembles (Model/Csv.csvWriteTable: the header of result names in the listed order, then record i holding cell i of every result) is read back by the reader's record splitter as exactly that header and one record per cell, whatever names and cell texts contain; written_table_row_count, written_table_cell. Theorems in MPilot.C17 over the records the csv reader yields: columnValues_spec (row order, blank records skipped), other_columns_irrelevant, invalid_value_line (a non-numeric cell "
      "in the k-th record is reported on line k+2), csvRead_type_and_mask (element type; a cell is missing exactly when it equals the missing value after conversion to the element type), csv_row_roundtrip / csv_table_roundtrip (the csv reader model inverts the csv writer model for every table of text fields, so header names needing quoting survive). "
      "The csv module is modelled (csvRows/csvField) and compared with the real one on every table; bit-identical write/read round trip of doubles rests on CPython's shortest repr and is "
      "established by testing on the implementation only (subnormals, extremes, negative zero included). Known finding C17-F16: a missing cell is written as '--'.",
      TB + "Integer columns holding numbers beyond int64 are outside the model (counted).")
claim("C18", "DESIGN.md 5/C18", "Lean theorems on the command logic over an assumed dataset store + correspondence on generated NetCDF files + faithfulness oracles through the library",
      "MPilot.C18L (Props/C18Layout.lean) - the frame EEMSWrite builds around the results (Model/NetCdf.ncLayout: dimensions of the template field, coordinate variables, grid-mapping variable, CRS attributes): layout_coordinates_copied (every dimension of the template field is in the output, sized like its coordinate variable, with a coordinate variable of the template's element type, attributes and values), layout_results_on_grid, layout_missing_coordinate; the frame of real output files is compared with the model on generated templates (this found and fixed F25: templates whose coordinate variables carry _FillValue). Partial by nature: netCDF4/HDF5 (storage, compression, fill values, attribute copying, CRS discovery) is assumed - 'what is assigned is what is read' - and only validated on generated "
      "files. Theorems in MPilot.C18: unionMask_spec / ncWrite_spec (every variable keeps shape, element type and values; missing exactly where any result written together is missing), "
      "read_default (float by default, faithful), read_missing_value_mask, read_positive_check, read_fuzzy_check, read_no_such_variable, write_read_round_trip (results of one grid written together and one of them read back: same shape, missing exactly "
      "where some result written with it is missing, the result's own value in every other cell - for any number of results, cells and any position), write_alone_read_back. The real EEMSRead/EEMSWrite are compared with the model "
      "using the array the library actually delivers; files are inspected through the library itself (shape, kind, values, union mask, dimension variables, coordinate values, attributes). "
      "Whole NetCDF command files (read, one or two data commands, write; any file order) are loaded with Program.from_source, run, and the written dataset compared with the computed results.",
      TB)
claim("C19", "DESIGN.md 5/C19", "Lean theorems on the registry model + tables regenerated from the source (decide) + fresh-interpreter history correspondence + fresh-process twins",
      "MPilot.C19 (Props/C19Hist.lean): construction_determined - two process states (registries) that agree on the entries under the requested libraries give the same outcome for that request, the loading of those libraries by Program.__init__ included (filter_register: selecting commutes with registering; filter_foldl_register), whatever else differs - other programs built earlier, other libraries imported, classes in look-alike modules; runHistory_construct_determined, other_program_irrelevant. Theorems in MPilot.C19: lookup_congr (the lookup is a function of the registered entries under the requested libraries), register_outside_irrelevant / history_outside_irrelevant "
      "(no history of definitions elsewhere changes it), no_prefix_capture (every offered command's module is a requested library or beneath one), lookup_perm (order of libraries), "
      "duplicates_rejected. builtin_libraries_duplicate_free / readers_resolve_to_own_library / builtin_modules_under_libraries are re-proved by kernel evaluation against declarations "
      "regenerated from the source on every run. Every history runs in a fresh interpreter and each final request is replayed first-thing in another fresh one. Libraries that exist only as files "
      "(modules and packages with prefix-related names) are requested in random sequences, each in a fresh interpreter: every request, the empty one included, is offered exactly the commands defined under it.",
      PB)
