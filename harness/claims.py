"""What each registered check claims (input of mk_manifest.py)."""
NOT_CLAIMED = {}
CHECKS = {}


def claim(pid, ref, technique, text, note, category="proof"):
    CHECKS[pid] = dict(ref=ref, technique=technique, text=text, note=note, category=category)


TB = ("Trusted: Lean 4.33 kernel, axioms propext/Classical.choice/Quot.sound only (audited by #print axioms each run; no native_decide/bv_decide/sorry); "
      "Mathlib lemmas; the hand-written model's faithfulness is established only by the differential correspondence run on each check "
      "(bounded by generator quality, tolerance 1e-9); numpy.ma primitives are modelled, not verified; values are exact rationals "
      "(IEEE rounding, overflow, NaN, int64 wrap-around not exhibited); sqrt is a parameter of the model. ")

claim("C04", "DESIGN.md 5/C04", "Lean 4 theorem over the executable model + differential correspondence + range oracle",
      "Theorem MPilot.C04.fuzzy_range: for all 14 fuzzy producers, every input list, every parameter value and every sqrt, every non-missing "
      "result cell of the model's exec lies in [-1,1] (no hypotheses). The model's 14 cases are tied to the execute bodies by running both on "
      "the same generated cases (parameters deliberately outside the fuzzy range) and every implementation result is range-checked.",
      TB)
