"""What each registered check claims (input of mk_manifest.py)."""
NOT_CLAIMED = {}
CHECKS = {}


def claim(pid, ref, technique, text, note, category="proof"):
    CHECKS[pid] = dict(ref=ref, technique=technique, text=text, note=note, category=category)


TB = ("Trusted: Lean 4.33 kernel, axioms propext/Classical.choice/Quot.sound only (audited by #print axioms each run; no native_decide/bv_decide/sorry); "
      "Mathlib lemmas; the hand-written model's faithfulness is established only by the differential correspondence run on each check "
      "(bounded by generator quality, tolerance 1e-9); numpy.ma primitives are modelled, not verified; values are exact rationals "
      "(IEEE rounding, overflow, NaN, int64 wrap-around not exhibited); sqrt is a parameter of the model. ")

claim("C04", "DESIGN.md 5/C04", "Lean 4 theorem over the executable model + differential correspondence + range oracle",
      "Theorem MPilot.C04.fuzzy_range: for all 14 fuzzy producers, every input list, every parameter value and every sqrt, every non-missing "
      "result cell of the model's exec lies in [-1,1] (no hypotheses). The model's 14 cases are tied to the execute bodies by running both on "
      "the same generated cases (parameters deliberately outside the fuzzy range) and every implementation result is range-checked.",
      TB)

claim("C03", "DESIGN.md 5/C03", "Lean 4 non-interference theorem over the executable model + differential correspondence + mask/payload-twin oracles",
      "Theorem MPilot.C03.payload_irrelevant: for all 31 data commands, any two input lists that look the same (element type, shape, "
      "missing cells, non-missing values) give the same error or visibly equal results, whatever is stored beneath missing cells - "
      "whole-array statistics included. The mask-superset / undefined-only clauses are decided on the implementation by oracle and by "
      "the correspondence with the model (a Lean mask theorem for all commands is not yet proved: partial).",
      TB)
claim("C05", "DESIGN.md 5/C05", "Lean 4 theorem (shape) + differential correspondence + permutation/reshape/layout twin oracles",
      "Theorem MPilot.C05.shape_preserved: every data command that succeeds returns the shape of its first input, any rank. Cell independence "
      "(common permutation / reshape / memory layout of the inputs) is decided on the implementation by twin runs and by the correspondence on rank 1-3 "
      "shapes; permutation invariance in the *inputs list* is proved in C06/C07. Equivariance under cell permutations is not yet a theorem: partial.",
      TB)
claim("C06", "DESIGN.md 5/C06", "Lean 4 theorems (definitions, algebra, order invariance) + exhaustive-lattice correspondence + reference/algebra oracles",
      "Theorems in MPilot.C06: Or/And cell = max/min of the column; Not negates, is an involution; De Morgan; And <= Union <= Or; xor stays in range; "
      "selected union with k = all is the mean; Or, And, Union, XOr, SelectedUnion give the same outcome for every input order (all lists, all sizes). "
      "All lattice tuples for <= 3 inputs are enumerated against model and exact reference on every run.",
      TB)
claim("C07", "DESIGN.md 5/C07", "Lean 4 theorems (cell definitions, commutativity incl. failure, error order) + differential correspondence + reference oracles",
      "Theorems in MPilot.C07: Sum/Multiply/Minimum/Maximum cell definitions with mask = union; AMinusB/ADividedByB cells; division by zero masks and never "
      "fails; Sum, Multiply, Minimum, Maximum, Mean give the same error or visibly equal results for every permutation of their inputs; EmptyInputs, "
      "MixedArrayShapes, MismatchedWeights raised in the bodies' order. Weighted commands' order invariance is decided by oracle/correspondence only: partial.",
      TB)
claim("C08", "DESIGN.md 5/C08", "Lean 4 theorems (threshold map, inverse, monotonicity, lookup, curve order independence, counterpart equality) + correspondence + mapping oracles",
      "Theorems in MPilot.C08: CvtToFuzzy maps true->+1, false->-1, is the line between and clamped outside, monotone/antitone; CvtFromFuzzy inverts it; "
      "CvtToBinary threshold test; category lookup hit/miss; sorted control points are independent of listing order (curve_perm_invariant); curve flat below the first point; "
      "each CvtToFuzzy variant is definitionally the clamp of its Normalize counterpart. Interpolation between interior control points and the z-score/mean-to-mid statistics "
      "are tied by correspondence and reference oracles only: partial.",
      TB + "z-score commands depend on sqrt: model parameter, driver instance = 20-digit rational root; cases within 1e-9 of a data-derived discontinuity are skipped and counted.")
claim("C09", "DESIGN.md 5/C09", "Lean 4 heap-model theorems (execH_preserves, execH_refines) + before/after snapshots of every live array around every real execute",
      "Heap model execH makes aliasing (single-input Minimum/Maximum/FuzzyOr/FuzzyAnd return the input object) and the in-place clamp explicit. Theorem execH_preserves: one "
      "step leaves every existing object visibly unchanged provided fuzzy inputs are fuzzy values (C04); execH_refines: the result object is exec's result. "
      "Which bodies allocate fresh arrays is a modelling fact validated by the correspondence (aliasing facts + snapshots of inputs after each execute, sequences of up to 8 consumers).",
      TB)

claim("C20", "DESIGN.md 5/C20", "Lean 4 theorems by induction on the parameter tree + differential correspondence of clean and clean∘clean + type/purity oracles",
      "Theorems in MPilot.C20: clean_typed (documented type for every parameter class, lists item-wise), clean_err_is_param_error (a failing clean raises one of "
      "the seven parameter errors, never anything else), clean_idempotent (cleaning a cleaned value returns it; relative paths under an absolute working directory - "
      "the witness rel/rel/a.csv shows the premise is needed), integers stay integers, boolean forms. Determinism is definitional; purity (raw argument and program untouched) "
      "cannot be a theorem about a pure model and is decided by snapshot oracles on the real classes.",
      TB + "Python int()/float()/str() are modelled on ASCII text (sign, underscores, exponent); inf/nan, float and container text forms are outside the model (counted).")
