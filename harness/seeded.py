"""Seeded changes (realistic regressions written by independent sub-agents).

    /venv/bin/python -m harness.seeded ingest C07 1 2 3     # verify in the scratch worktree /tmp/mut/C07 and copy to seeded/
    /venv/bin/python -m harness.seeded eval [id ...]         # apply each to /repo, run the property's quick check, undo
    /venv/bin/python -m harness.seeded table                 # markdown table for DESIGN.md

No seeded change is ever committed to /repo.
"""
import json, os, shutil, subprocess, sys, time

HERE = os.path.dirname(os.path.dirname(os.path.abspath(__file__)))
SEEDED = os.path.join(HERE, "seeded")
PY = "/venv/bin/python"
# the working tree the changes are applied to: /repo itself (applied, checked, undone straight away), or a scratch clone of it when the
# evaluation runs in a private copy of /verif (see `isolated`) so that work on /verif can go on meanwhile
REPO = os.environ.get("SEEDED_REPO", "/repo")


def sh(cmd, cwd=None, timeout=1800):
    p = subprocess.run(cmd, cwd=cwd, shell=isinstance(cmd, str), stdout=subprocess.PIPE, stderr=subprocess.STDOUT, universal_newlines=True, timeout=timeout)
    return p.returncode, p.stdout


def ingest(prop, ks, root="/tmp/mut", tag=""):
    wt = os.path.join(root, prop)
    for k in ks:
        src = os.path.join(wt, "_out", str(k))
        if not os.path.exists(os.path.join(src, "patch.diff")):
            print(prop, k, "missing patch"); continue
        sid = "%s-%s%s" % (prop, tag, k)
        sh("git checkout -- . && git clean -fdq mpilot", cwd=wt)
        rc0, out0 = sh([PY, "_out/%s/demo.py" % k], cwd=wt)
        rca, outa = sh(["git", "apply", "_out/%s/patch.diff" % k], cwd=wt)
        rct, outt = sh([PY, "-m", "pytest", "-q", "-p", "no:cacheprovider"], cwd=wt)
        rc1, out1 = sh([PY, "_out/%s/demo.py" % k], cwd=wt)
        sh("git checkout -- . && git clean -fdq mpilot", cwd=wt)
        ok = rc0 == 0 and rca == 0 and rct == 0 and rc1 != 0
        print("%s: demo clean rc=%s, apply rc=%s, tests rc=%s (%s), demo patched rc=%s -> %s" % (
            sid, rc0, rca, rct, outt.strip().split("\n")[-1], rc1, "KEEP" if ok else "REJECT"))
        if not ok:
            continue
        dst = os.path.join(SEEDED, sid)
        os.makedirs(dst, exist_ok=True)
        for f in ("patch.diff", "demo.py", "notes.md"):
            if os.path.exists(os.path.join(src, f)):
                shutil.copy(os.path.join(src, f), os.path.join(dst, f))
        notes = open(os.path.join(src, "notes.md")).read() if os.path.exists(os.path.join(src, "notes.md")) else ""
        meta = {"id": sid, "property": prop, "needs_to_manifest": notes.strip()[:1500],
                "confirmed": {"worktree": wt, "tests_with_patch": outt.strip().split("\n")[-1],
                              "demo_clean_exit": rc0, "demo_patched_exit": rc1, "demo_patched_output": out1.strip()[-600:],
                              "how": "cd <scratch worktree of /repo HEAD>; python _out/k/demo.py; git apply patch.diff; pytest; python _out/k/demo.py; git checkout -- ."},
                "source": "independent sub-agent given only the property text and a scratch worktree"}
        json.dump(meta, open(os.path.join(dst, "meta.json"), "w"), indent=1)


SEEDS = [int(x) for x in os.environ.get("SEEDED_SEEDS", "0").split(",")]


def evaluate(ids, all_checks=False):
    ids = ids or sorted(os.listdir(SEEDED))
    rc, out = sh("git status --porcelain", cwd=REPO)
    assert out.strip() == "", REPO + " not clean: " + out
    env_note = {} if REPO == "/repo" else {"MPILOT_REPO": REPO}
    os.environ.update(env_note)
    for sid in ids:
        d = os.path.join(SEEDED, sid)
        meta = json.load(open(os.path.join(d, "meta.json")))
        rc, out = sh(["git", "-C", REPO, "apply", os.path.join(d, "patch.diff")])
        if rc != 0:
            print(sid, "patch does not apply:", out.strip()[-200:]); continue
        res = {}
        try:
            props = [meta["property"]] + (meta.get("also_check", []))
            if all_checks:
                man = json.load(open(os.path.join(HERE, "MANIFEST.json")))
                props = [c["property_id"] for c in man["checks"]]
            for p in props:
                t0 = time.time()
                per_seed = {}
                for sd in SEEDS:
                    os.environ["VERIF_SEED"] = str(sd)
                    rc, out = sh(["./check", p, "quick"], cwd=HERE)
                    v = [l for l in out.split("\n") if l.startswith("VIOLATION")]
                    per_seed[sd] = (rc, v, out.strip().split("\n")[-1][:300])
                os.environ.pop("VERIF_SEED", None)
                rcs = [x[0] for x in per_seed.values()]
                rc = 1 if all(r == 1 for r in rcs) else (2 if any(r == 2 for r in rcs) else 0)      # detected = on every seed tried
                v = [l for x in per_seed.values() for l in x[1]]
                res[p] = {"rc": rc, "violation_lines": v, "wall_s": round(time.time() - t0, 1), "tail": list(per_seed.values())[0][2],
                          "seeds": {str(k): x[0] for k, x in per_seed.items()}}
        finally:
            sh("git -C %s checkout -- . && git -C %s clean -fdq mpilot" % (REPO, REPO))
        meta["detection"] = res
        meta["detected_by"] = sorted(p for p, r in res.items() if r["rc"] == 1)
        json.dump(meta, open(os.path.join(d, "meta.json"), "w"), indent=1)
        print("%s: %s" % (sid, {p: (r["rc"], "nfif" if any("no-failing-input-found" in l for l in r["violation_lines"]) else "",
                                      "" if len(SEEDS) == 1 else r["seeds"]) for p, r in res.items()}))
        sys.stdout.flush()


def isolated(ids):
    """evaluate in a private copy of the committed+working /verif and a scratch clone of /repo; copy the meta.json files back"""
    root = os.environ.get("SEEDED_EVAL_ROOT", "/root/seeded_eval")          # several shards can run side by side under different roots
    sh("rm -rf %s && mkdir -p %s" % (root, root))
    sh("rsync -a --exclude .git %s/ %s/verif/" % (HERE, root))
    sh("git clone -q /repo %s/repo" % root)
    env = dict(os.environ, SEEDED_REPO=root + "/repo", MPILOT_REPO=root + "/repo")
    p = subprocess.run([PY, "-m", "harness.seeded", "eval"] + list(ids), cwd=root + "/verif", env=env)
    for sid in (ids or os.listdir(os.path.join(root, "verif", "seeded"))):
        src = os.path.join(root, "verif", "seeded", sid, "meta.json")
        if os.path.exists(src) and os.path.isdir(os.path.join(SEEDED, sid)):
            shutil.copy(src, os.path.join(SEEDED, sid, "meta.json"))
    sh("rm -rf %s" % root)
    return p.returncode


def table():
    print("| seeded change | property | needs | detected by (quick) |")
    print("|---|---|---|---|")
    for sid in sorted(os.listdir(SEEDED)):
        m = json.load(open(os.path.join(SEEDED, sid, "meta.json")))
        lines = [l.strip(" -*#") for l in m["needs_to_manifest"].split("\n") if l.strip(" -*#") and not l.startswith("#")]
        first = (lines[0] if lines else "")[:160]
        print("| %s | %s | %s | %s |" % (sid, m["property"], first.replace("|", "/"), ", ".join(m.get("detected_by", [])) or "MISSED"))


if __name__ == "__main__":
    cmd = sys.argv[1]
    if cmd == "ingest":
        ingest(sys.argv[2], sys.argv[3:] or ["1", "2", "3"])
    elif cmd == "ingest2":
        ingest(sys.argv[2], sys.argv[3:] or ["1", "2", "3"], root="/tmp/mut2", tag="r2.")
    elif cmd == "ingest3":
        ingest(sys.argv[2], sys.argv[3:] or ["1", "2", "3"], root="/tmp/mut3", tag="r3.")
    elif cmd == "ingest4":
        ingest(sys.argv[2], sys.argv[3:] or ["1", "2", "3"], root="/tmp/mut4", tag="r4.")
    elif cmd == "ingest5":
        ingest(sys.argv[2], sys.argv[3:] or ["1", "2", "3"], root="/tmp/mut5", tag="r5.")
    elif cmd == "ingest6":
        ingest(sys.argv[2], sys.argv[3:] or ["1", "2", "3"], root="/tmp/mut6", tag="r6.")
    elif cmd == "ingest7":
        ingest(sys.argv[2], sys.argv[3:] or ["1", "2", "3"], root="/tmp/mut7", tag="r7.")
    elif cmd == "ingest9":
        ingest(sys.argv[2], sys.argv[3:] or ["1", "2", "3"], root="/tmp/mut9", tag="r9.")
    elif cmd == "ingest8":
        ingest(sys.argv[2], sys.argv[3:] or ["1", "2", "3"], root="/tmp/mut8", tag="r8.")
    elif cmd == "eval":
        a = [x for x in sys.argv[2:] if x != "--all"]
        evaluate(a, "--all" in sys.argv)
    elif cmd == "isolated":
        sys.exit(isolated(sys.argv[2:]))
    elif cmd == "table":
        table()
