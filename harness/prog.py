"""Program-level plumbing: the harness' test library, encoders of parameter specs / raw values / declarations / nodes for
the model driver, canonical forms of cleaned values, and instrumented runs of real `Program`s."""
from __future__ import print_function

import sys
import types
from fractions import Fraction

from .common import enc_str, enc_rat

TESTLIB = "mpverif_lib"

TESTLIB_SRC = '''
import numpy
from mpilot import params
from mpilot.commands import Command
from mpilot.exceptions import ProgramError

LOG = []          # ("+"|"-", result_name)
READS = []        # (consumer, producer, object id of the value read, producer finished at the time)
EFFECTS = []      # side effects performed by W


class _Base(Command):
    def _pull(self, kw):
        vals = []
        for key in ("One", "Many", "Nested", "Data", "FData", "DataList", "FDataList"):
            if key in kw:
                v = kw[key]
                stack = [v]
                flat = []
                def walk(x):
                    if isinstance(x, (list, tuple)):
                        for y in x:
                            walk(y)
                    else:
                        flat.append(x)
                walk(v)
                for c in flat:
                    r = c.result
                    READS.append((self.result_name, c.result_name, id(r), c.is_finished))
                    vals.append(r)
        return vals

    def execute(self, **kw):
        LOG.append(("+", self.result_name))
        self._pull(kw)
        fail = kw.get("Fail")
        if fail == "mp":
            raise ProgramError(self.lineno, "deliberate failure")
        if fail == "value":
            raise ValueError("deliberate failure")
        out = self.produce(**kw)
        LOG.append(("-", self.result_name))
        return out

    def produce(self, **kw):
        return ("tok", self.result_name)


_COMMON = {
    "One": params.ResultParameter(required=False),
    "Many": params.ListParameter(params.ResultParameter(), required=False),
    "Nested": params.ListParameter(params.ListParameter(params.ResultParameter()), required=False),
    "Fail": params.StringParameter(required=False),
}


class N(_Base):
    """opaque command: reads One, Many, Nested (in this order) and returns a token"""
    inputs = dict(_COMMON)
    output = params.BooleanParameter()


class NoneResult(_Base):
    """like N but its result is None"""
    inputs = dict(_COMMON)
    output = params.BooleanParameter()

    def produce(self, **kw):
        return None


class D(_Base):
    """non-fuzzy data producer/consumer"""
    inputs = dict(_COMMON, Data=params.ResultParameter(params.DataParameter(), is_fuzzy=False, required=False),
                  DataList=params.ListParameter(params.ResultParameter(params.DataParameter(), is_fuzzy=False), required=False))
    output = params.DataParameter()

    def produce(self, **kw):
        return numpy.ma.array([1.0, 2.0])


class F(_Base):
    """fuzzy data producer/consumer"""
    is_fuzzy = True
    inputs = dict(_COMMON, FData=params.ResultParameter(params.DataParameter(), is_fuzzy=True, required=False),
                  FDataList=params.ListParameter(params.ResultParameter(params.DataParameter(), is_fuzzy=True), required=False))
    output = params.DataParameter()

    def produce(self, **kw):
        return numpy.ma.array([0.5, -0.5])


class F2(F):
    """derived from the fuzzy command without repeating anything: a fuzzy command too"""


class D2(D):
    """derived from the non-fuzzy data command"""


class S(_Base):
    """typed scalar parameters"""
    inputs = dict(_COMMON, Num=params.NumberParameter(required=False), Str=params.StringParameter(required=False),
                  Bool=params.BooleanParameter(required=False), PathIn=params.PathParameter(must_exist=True, required=False),
                  PathOut=params.PathParameter(must_exist=False, required=False), DType=params.DataTypeParameter(required=False),
                  Nums=params.ListParameter(params.NumberParameter(), required=False), Tup=params.TupleParameter(required=False),
                  Req=params.NumberParameter())
    output = params.BooleanParameter()


class X(_Base):
    """accepts undeclared arguments"""
    inputs = dict(_COMMON)
    allow_extra_inputs = True
    output = params.BooleanParameter()


class NoOut(_Base):
    """declares no `output` (plug-in style); executing it has a visible side effect"""
    inputs = dict(_COMMON)

    def produce(self, **kw):
        EFFECTS.append(self.result_name)
        return ("tok", self.result_name)


class W(_Base):
    """has a visible side effect when executed"""
    inputs = dict(_COMMON, Data=params.ResultParameter(params.DataParameter(), required=False))
    output = params.BooleanParameter()

    def produce(self, **kw):
        EFFECTS.append(self.result_name)
        return True
'''


def testlib():
    if TESTLIB in sys.modules:
        return sys.modules[TESTLIB]
    m = types.ModuleType(TESTLIB)
    sys.modules[TESTLIB] = m
    exec(compile(TESTLIB_SRC, TESTLIB, "exec"), m.__dict__)
    return m


def reset_testlib():
    m = testlib()
    del m.LOG[:]
    del m.READS[:]
    del m.EFFECTS[:]
    return m


# ---------------------------------------------------------------- encoders

def type_id(t):
    return "%s.%s" % (t.__module__, t.__name__)


def enc_spec(p):
    from mpilot import params as P
    cls = type(p)
    if cls is P.Parameter:
        return "any"
    if cls is P.StringParameter:
        return "str"
    if cls is P.NumberParameter:
        return "num"
    if cls is P.BooleanParameter:
        return "bool"
    if cls is P.PathParameter:
        return "path %d" % (1 if p.must_exist else 0)
    if cls is P.ResultParameter:
        ot = "-" if p.output_type is None else enc_spec(p.output_type)
        fz = "-" if p.is_fuzzy is None else ("1" if p.is_fuzzy else "0")
        return "result %s %s" % (ot, fz)
    if cls is P.ListParameter:
        return "list " + enc_spec(p.value_type)
    if cls is P.TupleParameter:
        return "tuple"
    if cls is P.DataParameter:
        return "data"
    if cls is P.DataTypeParameter:
        items = list(p.valid_types.items())
        return "dtype %d %s" % (len(items), " ".join("%s %s" % (enc_str(k), enc_str(type_id(v))) for k, v in items)) if items else "dtype 0"
    raise ValueError("parameter class not known to the model: %r" % cls)


def enc_raw(v):
    """raw argument value (parser output or API object) -> prefix tokens"""
    from mpilot.commands import Command
    from mpilot.arguments import Argument
    if isinstance(v, Argument):
        v = v.value
    if isinstance(v, bool):
        return "b %d" % (1 if v else 0)
    if isinstance(v, int):
        return "i %d" % v
    if isinstance(v, float):
        return "f " + enc_rat(v)
    if isinstance(v, str):
        return "s " + enc_str(v)
    if isinstance(v, (list, tuple)):
        return ("l %d " % len(v) + " ".join(enc_raw(x) for x in v)).strip()
    if isinstance(v, dict):
        return ("d %d " % len(v) + " ".join("%s %s" % (enc_str(str(k)), enc_raw(x)) for k, x in v.items())).strip()
    if isinstance(v, Command):
        return "c " + enc_str(v.result_name)
    if isinstance(v, type):
        return "t " + enc_str(type_id(v))
    if v is None:
        return "n"
    raise ValueError("raw value not encodable: %r" % (v,))


def canon_raw(v):
    from mpilot.commands import Command
    if isinstance(v, bool):
        return "b:%d" % (1 if v else 0)
    if isinstance(v, int):
        return "i:%d" % v
    if isinstance(v, float):
        return "f:" + (enc_rat(v) if v == v and v not in (float("inf"), float("-inf")) else repr(v))
    if isinstance(v, str):
        return "s:" + enc_str(v)
    if isinstance(v, (list, tuple)):
        return "l[" + ",".join(canon_raw(x) for x in v) + "]"
    if isinstance(v, dict):
        return "d{" + ",".join("%s=%s" % (enc_str(str(k)), canon_raw(x)) for k, x in v.items()) + "}"
    if isinstance(v, Command):
        return "c:" + enc_str(v.result_name)
    if isinstance(v, type):
        return "t:" + enc_str(type_id(v))
    if v is None:
        return "n"
    return "?" + type(v).__name__


def canon_clean(v, spec_is_any=False):
    """cleaned value -> the model's canonical text"""
    from mpilot.commands import Command
    if spec_is_any:
        return "r:" + canon_raw(v)
    if isinstance(v, dict):
        return "d{" + ",".join("%s=%s" % (enc_str(k), enc_str(x)) for k, x in sorted(v.items())) + "}"
    if isinstance(v, (list, tuple)):
        return "l[" + ",".join(canon_clean(x) for x in v) + "]"
    return canon_raw(v)


def model_float_matches(impl_canon, model_canon):
    """both canonical; floats in the model are exact decimals: equal after correct rounding to double"""
    if impl_canon == model_canon:
        return True
    if impl_canon.startswith("f:") and model_canon.startswith("f:"):
        try:
            return float(Fraction(model_canon[2:])) == float(Fraction(impl_canon[2:]))
        except (ValueError, OverflowError):
            return False
    if impl_canon.startswith("l[") and model_canon.startswith("l["):
        a = split_top(impl_canon[2:-1]); b = split_top(model_canon[2:-1])
        return len(a) == len(b) and all(model_float_matches(x, y) for x, y in zip(a, b))
    return False


def split_top(s):
    out, depth, cur = [], 0, ""
    for ch in s:
        if ch in "[{":
            depth += 1
        elif ch in "]}":
            depth -= 1
        if ch == "," and depth == 0:
            out.append(cur); cur = ""
        else:
            cur += ch
    if cur:
        out.append(cur)
    return out


# what the source of the test library says about fuzziness of derived commands (the flag is inherited like any class attribute)
FUZZY_TRUTH = {"F2": True, "D2": False}


def enc_decl(cls):
    ins = list(cls.inputs.items())
    out = "-" if cls.output is None else enc_spec(cls.output)
    fuzzy = FUZZY_TRUTH.get(cls.name, getattr(cls, "is_fuzzy", False)) if cls.__module__ == TESTLIB else getattr(cls, "is_fuzzy", False)
    parts = [enc_str(cls.name), enc_str(cls.__module__), "1" if fuzzy else "0",
             "1" if cls.allow_extra_inputs else "0", out, str(len(ins))]
    for name, p in ins:
        parts += [enc_str(name), "1" if p.required else "0", enc_spec(p)]
    return " ".join(parts)


def enc_env(wd, paths):
    return "%s %d %s" % ("~" if wd is None else enc_str(wd), len(paths), " ".join(enc_str(p) for p in paths))


def enc_line(n):
    return "-" if n is None else str(n)


def enc_node(result_name, command, args, line):
    """args: list of (name, raw value, line)"""
    parts = [enc_str(result_name), enc_str(command), enc_line(line), str(len(args))]
    for name, value, ln in args:
        parts += [enc_str(name), enc_line(ln), enc_raw(value)]
    return " ".join(parts)
