"""Correspondence of the command-line tool with `Model/Cli` (C11, C13).

(a) formatting in isolation: the tool's `Program` is replaced (on the scratch copy) by a stand-in whose `from_source` records the text it is handed
    and whose `run()` raises a prepared exception, so that files of every line-end convention and errors naming every line (none, the first, the
    last, one beyond the file) are seen; standard error, exit status, the escaping exception and the text handed to the loader are compared with the model.
(b) real faults: what the real loader / run raises for a command file is captured directly and the tool's output for that file is compared with the
    model's rendering of that very exception.
"""
import os

from . import common


def _invoke(main, args):
    from click.testing import CliRunner
    try:
        runner = CliRunner(mix_stderr=False)
    except TypeError:
        runner = CliRunner()
    res = runner.invoke(main, args)
    try:
        err = res.stderr
    except ValueError:
        err = res.output
    exc = res.exception
    crash = "-" if exc is None or isinstance(exc, SystemExit) else type(exc).__name__
    return res.exit_code, err or "", crash


def _line(exists, path, text, outcome):
    return "cli %d %s %s %s" % (1 if exists else 0, common.enc_str(path), common.enc_str(text), outcome)


def _outcome(exc):
    from mpilot.exceptions import MPilotError, ProgramError
    if exc is None:
        return "done"
    if not isinstance(exc, MPilotError):
        return "other"
    ln = getattr(exc, "lineno", None) if isinstance(exc, ProgramError) else None
    return "mp %s %d %s" % (common.enc_str(str(exc)), 1 if isinstance(exc, ProgramError) else 0, "-" if ln is None else str(int(ln)))


def _parse(ans):
    kv = dict(x.split("=", 1) for x in ans.split(" ") if "=" in x)
    return int(kv["exit"]), common.dec_str(kv["stderr"]), kv["crash"], common.dec_str(kv["src"])


def _compare(ctx, what, desc, real, ans, handed=None):
    exit_code, err, crash = real
    m_exit, m_err, m_crash, m_src = _parse(ans)
    if m_crash == "LineZero":
        ctx.count("cli_outside_model")
        return
    real_t = "exit=%s crash=%s stderr=%r" % (exit_code, "-" if crash == "-" else ("IndexError" if crash == "IndexError" else "other"), err)
    model_t = "exit=%s crash=%s stderr=%r" % (m_exit, m_crash, m_err)
    if real_t != model_t:
        ctx.disagree("cli:" + what, desc, real_t[:1500], model_t[:1500])
    if handed is not None and handed != m_src:
        ctx.disagree("cli:source-handed-to-loader", desc, repr(handed)[:800], repr(m_src)[:800])


def formatting(ctx, model, count, reports=False):
    """reports=True (C13): besides the comparison with the model, every MPilot error the loader / run raises - a ProgramError or not, with a line or without -
    must be reported by the tool: no exception escapes, the exit status is not 0, the error's own text is on standard error"""
    import mpilot.cli.mpilot as cli
    from mpilot import exceptions as mx
    from mpilot.libraries.eems import exceptions as ex
    from mpilot.libraries.eems.netcdf import exceptions as nx
    rng = ctx.rng
    tmp = common.tmpdir("mpv_cli_")
    state = {}

    class Prog(object):
        @classmethod
        def from_source(cls, source, libraries=None, working_dir=None):
            state["source"] = source
            state["wd"] = working_dir
            if state.get("when") == "load" and state["exc"] is not None:
                raise state["exc"]
            return cls()

        def run(self):
            if state["exc"] is not None:
                raise state["exc"]

    real_program = cli.Program
    cli.Program = Prog
    try:
        pieces = ["A = B(X = 1)", "# note", "", "  indented = Y(Z = [1,", "   2])", "--> looks like a mark", "    four blanks", "é x\x0cy", "x\ty", "last"]
        cases, lines_out = [], []
        for i in range(count):
            n = rng.choice([0, 1, 1, 2, 3, 4, 5, 7, 8, 12])
            ls = [rng.choice(pieces) for _ in range(n)]
            style = rng.choice(["lf", "lf", "crlf", "cr", "mixed"])
            text = ""
            for l in ls:
                text += l + {"lf": "\n", "crlf": "\r\n", "cr": "\r"}.get(style, rng.choice(["\n", "\r\n", "\r"]))
            if ls and rng.random() < 0.3:
                text = text.rstrip("\r\n")                   # last line not terminated
            if rng.random() < 0.1:
                text += rng.choice(["\n", "\r\n", "\n\n", "\r\r\n"])     # blank lines at the end
            nfile = len(text.replace("\r\n", "\n").replace("\r", "\n").split("\n")) - (1 if text.endswith(("\n", "\r")) or text == "" else 0)
            ln = rng.choice([None, 1, 2, nfile, nfile, max(1, nfile - 1), max(1, nfile // 2), nfile + 1, nfile + 3])
            kind = rng.random()
            if kind < 0.1:
                exc = None
            elif kind < 0.2:
                exc = rng.choice([ValueError("v"), KeyError("k"), SyntaxError("s"), RuntimeError("r")])
            elif kind < 0.3:
                # MPilot errors that are no ProgramErrors (the NetCDF library's, the plain one Program() raises for clashing libraries, a plug-in's own)
                exc = rng.choice([nx.NoSuchVariable("p.nc", "v", lineno=ln), nx.InvalidFuzzyData("p.nc", lineno=ln), nx.InvalidPositiveData("p.nc", "Positive Float", lineno=ln),
                                  mx.MPilotError("plain"), type("PluginError", (mx.MPilotError,), {})("Problem: p\nSolution: s")]) if rng.random() < 0.7 else mx.ProgramError(ln, None)
            else:
                exc = rng.choice([
                    lambda: mx.CommandDoesNotExist("Nope", lineno=ln), lambda: mx.DuplicateResult("R", lineno=ln),
                    lambda: mx.ProgramError(ln, "Problem: x\nSolution: y"), lambda: mx.ProgramError(ln, "--> not a mark\n    text"),
                    lambda: mx.RecursiveModelStructure(ln),
                    lambda: ex.EmptyInputs(ln) if False else mx.ProgramError(ln, "é  ü"),
                    lambda: mx.UnexpectedError(ValueError("boom"), "Traceback: ...", lineno=ln)])()
            state["exc"] = exc
            state["when"] = rng.choice(["load", "run"])
            state.pop("source", None)
            path = os.path.join(tmp, "f%d.mpt" % (i % 5))
            with open(path, "w", encoding="utf-8", newline="") as f:
                f.write(text)
            if ln is not None and exc is not None and getattr(exc, "lineno", None) == 0:
                continue
            real = _invoke(cli.main, ["eems-csv", path])
            ctx.case("cli-format %r %r" % (text, _outcome(exc)), sample={"file": text[:200], "outcome": _outcome(exc)[:60], "exit": real[0]})
            ctx.count("cli_format:%s" % ("done" if exc is None else type(exc).__name__))
            ctx.count("cli_line_ends:" + style)
            cases.append(({"file_text": text, "exception": repr(exc), "lineno": ln}, real, state.get("source")))
            has_line = isinstance(exc, mx.ProgramError) and getattr(exc, "lineno", None) is not None
            if reports and isinstance(exc, mx.MPilotError) and (not has_line or 1 <= exc.lineno <= nfile):       # (a line beyond the file is no line of the file: Model/Cli)
                desc = {"file_text": text, "loader_raises" if state["when"] == "load" else "run_raises": "%s: %s" % (type(exc).__name__, exc), "is_ProgramError": isinstance(exc, mx.ProgramError),
                        "exit": real[0], "stderr": real[1][-400:], "escaped": real[2]}
                if real[2] != "-":
                    ctx.fail("the command-line tool died with %s although what was raised is the MPilot error %s" % (real[2], type(exc).__name__), desc)
                elif real[0] == 0:
                    ctx.fail("the command-line tool exited 0 although %s was raised" % type(exc).__name__, desc)
                elif str(exc) not in real[1]:
                    ctx.fail("the command-line tool did not print the text of %s to standard error" % type(exc).__name__, desc)
            lines_out.append(_line(True, path, text, _outcome(exc)))
            if i % 25 == 0:
                gone = os.path.join(tmp, "missing %d é.mpt" % i)
                real = _invoke(cli.main, ["eems-csv", gone])
                cases.append(({"missing_file": gone}, real, None))
                lines_out.append(_line(False, gone, "", "done"))
                ctx.count("cli_format:missing-file")
        for (desc, real, handed), ans in zip(cases, model.ask(lines_out)):
            _compare(ctx, "formatting", desc, real, ans, handed)
            # C13 directly on the tool: an MPilot error is never a success and its own text is on standard error
            if "exception" in desc and desc["exception"] != "None":
                if real[0] == 0:
                    ctx.fail("the command-line tool exited 0 although loading/running raised %s" % desc["exception"], desc)
    finally:
        cli.Program = real_program


def real_faults(ctx, model, cases):
    """cases: [(text, path, library, (exit, stderr, crash))] collected from runs of the real tool; the exception is what the real loader/run raises"""
    from mpilot.program import Program, EEMS_CSV_LIBRARIES, EEMS_NETCDF_LIBRARIES
    lines_out, keep = [], []
    for text, path, library, real in cases:
        with open(path) as f:
            ls = [line.strip("\n\r") for line in f.readlines()]
        exc = None
        try:
            Program.from_source("\n".join(ls), libraries=(EEMS_CSV_LIBRARIES if library == "eems-csv" else EEMS_NETCDF_LIBRARIES), working_dir=os.path.dirname(path)).run()
        except Exception as e:          # noqa
            exc = e
        lines_out.append(_line(True, path, text, _outcome(exc)))
        keep.append(({"command_file": text, "exception": repr(exc)}, real))
        ctx.count("cli_real:%s" % ("done" if exc is None else type(exc).__name__))
    for (desc, real), ans in zip(keep, model.ask(lines_out)):
        _compare(ctx, "real-fault", desc, real, ans)
