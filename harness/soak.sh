#!/bin/sh
# soak of the quick tier on the unchanged tree: ./harness/soak.sh "1 2 3 4 5"  (seeds) ; prints one line per run, VIOLATION lines included
cd "$(dirname "$0")/.." || exit 2
[ -x lean/.lake/build/bin/mpdriver ] || (cd lean && lake build >/dev/null 2>&1)
for s in ${1:-1 2 3}; do for i in 01 02 03 04 05 06 07 08 09 10 11 12 13 14 15 16 17 18 19 20; do echo "$s C$i"; done; done | \
  xargs -P ${SOAK_JOBS:-6} -L 1 sh -c 'out=$(VERIF_SEED=$0 ./check $1 quick 2>&1); rc=$?; echo "seed=$0 $1 rc=$rc $(echo "$out" | grep VIOLATION | head -2)"'
