"""Random dependency graphs over the harness' opaque commands."""
from .progrun import Name, Scenario
from . import prog


def dag_commands(rng, n, cmd_pool=("N", "N", "N", "X", "W", "NoneResult"), max_fan_in=5, chain=False, edges=None):
    """n commands c0..c{n-1}; command i may reference only j < i (topological numbering).  Returns list of commands."""
    names = ["c%d" % i for i in range(n)]
    cmds = []
    for i in range(n):
        if edges is not None:
            deps = [j for j in range(n) if (i, j) in edges]
        elif chain:
            deps = [i - 1] if i > 0 else []
        else:
            k = rng.randrange(0, min(i, max_fan_in) + 1) if i > 0 else 0
            deps = rng.sample(range(i), k) if k else []
            if rng.random() < 0.15 and deps:
                deps.append(rng.choice(deps))          # the same result referenced twice
        cmds.append(make_command(rng, names[i], rng.choice(cmd_pool), [names[j] for j in deps]))
    return cmds


def make_command(rng, name, cls, deps, style=None):
    """distribute references over One / Many / Nested"""
    args = []
    deps = list(deps)
    rng.shuffle(deps)
    style = style or rng.choice(["mixed", "mixed", "direct", "list", "nested"])
    one = many = None
    nested = None
    if deps and style in ("mixed", "direct") and rng.random() < 0.8:
        one = deps.pop()
    if style == "direct" and deps:
        many = deps; deps = []
    if deps:
        if style == "nested" or (style == "mixed" and rng.random() < 0.4):
            k = rng.randrange(1, len(deps) + 1)
            cut = sorted(rng.sample(range(1, len(deps)), min(k - 1, max(0, len(deps) - 1)))) if len(deps) > 1 else []
            groups, prev = [], 0
            for c in cut + [len(deps)]:
                groups.append(deps[prev:c]); prev = c
            if rng.random() < 0.3:
                groups.insert(rng.randrange(len(groups) + 1), [])
            nested = groups
        else:
            many = (many or []) + deps
    order = [("One", Name(one)) if one else None, ("Many", [Name(d) for d in many]) if many is not None else None,
             ("Nested", [[Name(d) for d in g] for g in nested]) if nested is not None else None]
    order = [a for a in order if a]
    rng.shuffle(order)
    if rng.random() < 0.2:
        order.append(("Metadata", {"note": "x %s" % name}))
    return (name, cls, order)


def shuffled(rng, cmds):
    c = list(cmds)
    rng.shuffle(c)
    return c


def refs_of(cmd):
    out = []

    def walk(v):
        if isinstance(v, Name):
            out.append(v.s)
        elif isinstance(v, list):
            for x in v:
                walk(x)
    for name, v in cmd[2]:
        if name in ("One", "Many", "Nested", "Data", "FData", "DataList", "FDataList"):
            walk(v)
    return out
