#!/bin/sh
# the thorough tier of every check on the unchanged tree: ./harness/thorough_all.sh ; one line per check, VIOLATION lines included
cd "$(dirname "$0")/.." || exit 2
[ -x lean/.lake/build/bin/mpdriver ] || (cd lean && lake build >/dev/null 2>&1)
for i in 01 02 03 04 05 06 07 08 09 10 11 12 13 14 15 16 17 18 19 20; do echo "C$i"; done | \
  xargs -P ${THOROUGH_JOBS:-3} -L 1 sh -c 'out=$(./check $0 thorough 2>&1); rc=$?; echo "$0 rc=$rc $(echo "$out" | grep "VIOLATION\|thorough seed" | tr "\n" " " | cut -c1-300)"'
