"""Prompts for the independent sub-agents that write seeded changes (property text + scratch worktree only; nothing from /verif).

    /venv/bin/python -m harness.seeded_prompts <root dir> <round: 1|2|3> Cxx [Cyy ...]

creates a git worktree of /repo HEAD at <root>/Cxx and writes <root>/Cxx.prompt.txt.
"""
import json, os, subprocess, sys

HERE = os.path.dirname(os.path.dirname(os.path.abspath(__file__)))

TEMPLATE = '''You are helping to evaluate a verification tool by producing realistic regressions ("seeded changes") for one semantic property of the Python package consbio/mpilot (MPilot: a small command-file DSL that builds a DAG of plugin commands and evaluates EEMS fuzzy-logic and arithmetic operations over numpy masked arrays).

A git checkout of the package is at {wt} . Work ONLY inside that directory. Do NOT read, list or touch /verif or /repo (your work must be independent of them). Python to use: /venv/bin/python (numpy 1.26, ply, netCDF4 installed). Run the existing tests with:
    cd {wt} && /venv/bin/python -m pytest -q -p no:cacheprovider
(running from that directory makes `import mpilot` resolve to the checkout).

THE PROPERTY
id: {id}
title: {title}
statement: {statement}
quantified over: {quant}
why the existing tests cannot settle it: {why}
files the property is anchored in: {files}


YOUR TASK
Produce 3 DIFFERENT small source changes to the package under {wt}/mpilot, each of which BREAKS this property while
  (a) the package still imports, and
  (b) the existing test suite still passes completely (66 tests), unedited.
Make them realistic: the kind of regression a maintainer could introduce in a refactor, optimisation, clean-up or well-meant bug-fix. Strongly prefer changes that need something SPECIFIC to manifest - a particular input shape, element type, value or mask placement, an unusual parameter value, a multi-step sequence of operations, a particular history, or two cooperating edits that each look fine alone - rather than changes that any ordinary use would expose at once. Vary the mechanism across your changes (do not submit three variants of the same edit).

For each change k = 1, 2, 3 create the directory {wt}/_out/k/ containing:
  - patch.diff : output of `git diff` relative to HEAD (must apply with `git apply` on a clean checkout). Only files under mpilot/ may be changed.
  - demo.py    : a standalone script, run as `cd {wt} && /venv/bin/python _out/k/demo.py`, that exits 0 on the unmodified code and exits 1 (printing what went wrong) on the changed code. It must demonstrate the violation of the property through observable behaviour (public classes/functions, results, errors, files), not by inspecting source text. It must put the checkout root ({wt}) at the front of sys.path so that `import mpilot` resolves to the checkout.
  - notes.md   : 5-10 lines: what the change is, why it breaks the property, exactly what is needed for it to manifest, and why the existing tests do not notice.
After saving each patch, revert the working tree with `git checkout -- .` (and delete any stray new files under mpilot/) so that every patch is independent and relative to HEAD.
Before finishing, VERIFY for every k: with the patch applied the test suite passes and demo.py exits 1; with the patch reverted demo.py exits 0. Leave the working tree clean (only _out/ added). Do not commit anything.
IMPORTANT: the checkout is a git worktree that shares its stash with other checkouts used by other people at the same time: NEVER use `git stash`; to test against clean code use `git apply -R _out/k/patch.diff` / `git apply _out/k/patch.diff`, or `git diff > file` and `git checkout -- .`.

Finish with a short list: for each k one line describing the change and confirming the verification results.
{guidance}'''

GUIDANCE = {
    1: "",
    2: "\nADDITIONAL GUIDANCE FOR THIS ROUND: obvious single-line edits at the most visible spot of the anchoring code (dropping a clamp, a mask union, a copy; swapping two names) have been tried already. Look for less obvious routes: a different file than the first one that comes to mind, interaction between two features (e.g. element types with masks, element order with duplicates, defaults with explicit parameters, repeated use of one object, error paths), refactorings that move logic into a shared helper used by several commands, caching/memoisation, or locale/platform-style assumptions. Keep every change small and plausible.\n",
    3: "\nADDITIONAL GUIDANCE FOR THIS ROUND (the third): two rounds of changes have been tried already - obvious single-line edits at the most visible spot, and refactorings inside the file that implements the behaviour (shared helpers, caches, value/dtype/mask special cases). This time put the change somewhere a reviewer of the property would NOT look first: the shared plumbing (mpilot/commands.py, mpilot/program.py, mpilot/params.py, mpilot/arguments.py, mpilot/utils.py, mpilot/exceptions.py, mpilot/libraries/eems/mixins.py, mpilot/cli/mpilot.py), a base class or mixin, an exception class, argument/line-number handling, the way results are stored or handed over, module-level state, Python-version or numpy-version style compatibility shims, or an interaction with ANOTHER feature of the package (EEMS 2.0 conversion, serialisation with to_string, the command line tool, NetCDF vs CSV libraries, metadata arguments). The change must still break THIS property in an observable way. Keep every change small and plausible.\n",
    4: "\nADDITIONAL GUIDANCE FOR THIS ROUND (the fourth): three rounds have been tried already - obvious single-line edits, refactorings inside the implementing file, and edits to the shared plumbing. This time start from the property's QUANTIFIER ('for every ...') and aim at a corner of it that a checker built from the property text would plausibly under-sample, for example: extreme sizes (empty lists, a single element, hundreds of commands, inputs, list items or nesting levels, very long lines or names); unusual but legal element types and array forms (float32/float16, int8, unsigned, boolean arrays, 0-d or rank-4 arrays, non-contiguous or read-only arrays, arrays whose mask is numpy's scalar nomask, arrays sharing memory); unusual but legal text (non-ASCII names, CRLF or lone CR, tabs, a BOM, trailing blanks, no final newline); unusual orders of API use (results read before run(), run() twice, commands added or replaced after a run, one Program reused, several Programs alive at once, subclassed commands, copy.deepcopy or pickle of a program); or the caller's environment (a different current directory, relative and symlinked paths, read-only folders, warnings turned into errors, numpy.seterr set by the caller, a low recursion limit, PYTHONHASHSEED). The change ITSELF should read like an innocent optimisation (vectorising, caching, in-place arithmetic, views instead of copies, early exits for 'trivial' cases), a modernisation (newer numpy API, dropping six/Python 2 shims, pathlib, f-strings, dict/set comprehensions replacing ordered structures), or a robustness improvement (extra validation, normalising input, friendlier errors). It must still break THIS property in an observable way, and only in such a corner. Keep every change small and plausible.\n",
    5: "\nADDITIONAL GUIDANCE FOR THIS ROUND (the fifth): four rounds have been tried already - obvious single-line edits, refactorings inside the implementing file, edits to the shared plumbing, and changes that only show in a corner of the quantifier (extreme sizes, unusual element types, unusual text, unusual API orders, the caller's environment). This time make the failure depend on a CONJUNCTION or on the DATA: (a) a combination of two or three ordinary circumstances that are each common but rarely occur together (a particular command AND a particular parameter value AND a particular placement of missing cells; the second use of an object AND a particular type; a default parameter left out AND a particular data range); (b) a data-dependent branch (all values equal, already sorted or reverse-sorted input, exact ties, values exactly on a threshold / control point / category code, negative zero, a field without any missing cell next to one that has some, empty intersections); (c) scale or count thresholds (more than some thousands of cells, more than N commands or list items, the n-th call in a process, the first call after an exception was raised and caught); or (d) an interaction between two commands of a model (a result consumed by two particular kinds of consumer, a writer and a reader of the same file in one model, a fuzzy and a non-fuzzy consumer of related fields). The patch itself should read like a plausible optimisation, special-case fast path or bug fix - a reviewer should have to think to see the problem. It must still break THIS property in an observable way. Keep every change small.\n",
    6: "\nADDITIONAL GUIDANCE FOR THIS ROUND (the sixth): five rounds have been tried already - obvious single-line edits, refactorings inside the implementing file, edits to the shared plumbing, corners of the quantifier (extreme sizes, unusual element types / text / API orders / environments), and failures that depend on a conjunction of circumstances or on a data-dependent branch. This time choose one of these routes, a different one for each of your three changes: (a) TWO COOPERATING EDITS in two different functions or files, each of which is harmless (behaviour-preserving) on its own, which only together break the property - e.g. one site starts to rely on an invariant that the other site stops maintaining; (b) a failure that only shows AFTER A FAULT: an exception raised in the middle of a run, a load, a write or a parameter clean-up (a missing file, an invalid value, a failing plug-in command, KeyboardInterrupt-style interruption) after which the SAME objects (program, commands, parser, parameter objects, files on disk) are used again, or partially written output / state left behind; (c) an EXACTNESS violation: the property makes an exact claim (a closed bound such as [-1, 1], exact equality of results under reordering, an exact round trip, exact idempotence, 'exactly once', the exact line) and your change violates it only by a hair or only sometimes - a result a few units in the last place outside the bound or different from the reference, a value off by one ulp after a round trip, a float where an int was promised, an off-by-one in a count or a line for one particular construct; (d) a LONG SCENARIO: at least four steps through the public API or command files (load, run, edit, serialise, reload, rerun, write, read back ...) where every shorter prefix still behaves; (e) PROCESS-LEVEL circumstances: running under `python -O` (asserts stripped) or with PYTHONWARNINGS=error, a different locale / LANG / LC_NUMERIC, a different umask or a read-only directory, the package imported under two names or reloaded with importlib.reload, two interpreters / threads using the same files. The patch should read like a plausible clean-up, optimisation or bug fix; a reviewer should have to think to see the problem. It must still break THIS property in an observable way. Keep every change small.\n",
}


def main(root, rnd, ids):
    props = {}
    for line in open(os.path.join(HERE, "properties.jsonl")):
        d = json.loads(line)
        props[d["id"]] = d
    os.makedirs(root, exist_ok=True)
    for pid in ids:
        d = props[pid]
        wt = os.path.join(root, pid)
        subprocess.run(["git", "-C", "/repo", "worktree", "add", "--detach", "-q", wt, "HEAD"], check=True)
        with open(os.path.join(root, pid + ".prompt.txt"), "w") as f:
            f.write(TEMPLATE.format(wt=wt, id=pid, title=d["title"], statement=d["statement"], quant=d["quantifier"]["text"], why=d["why_tests_cant"],
                                    files=", ".join(d["anchors"]["files"]), guidance=GUIDANCE[rnd]))
        print(wt)


if __name__ == "__main__":
    main(sys.argv[1], int(sys.argv[2]), sys.argv[3:])
