"""Replays of the genuine defects found in the pinned consbio/mpilot tree (DESIGN.md section 3).

Each function runs the failing input against the *real* code that is importable as `mpilot`
and returns a string describing the failure when the defect is present, or None when it is absent.

    /venv/bin/python findings/demos.py            # all
    /venv/bin/python findings/demos.py F1 F5      # selected

Exit status 1 if any selected defect is present.  (On the repaired tree every `fixed` one is absent.)
"""
from __future__ import print_function
import os, sys, tempfile, shutil, io, contextlib
import numpy


def _prog(src, tables=None, libs=None, wd=None):
    from mpilot.program import Program, EEMS_CSV_LIBRARIES
    return Program.from_source(src, libraries=libs or EEMS_CSV_LIBRARIES, working_dir=wd)


class _Const(object):
    """stand-in producer holding a finished result (API level)"""

    def __init__(self, arr, name="X", fuzzy=False):
        from mpilot import params
        self.result = arr
        self.result_name = name
        self.is_finished = True
        self.is_fuzzy = fuzzy
        self.output = params.DataParameter()


def _exec(cls_name, lib="basic", **kw):
    import importlib
    mod = importlib.import_module("mpilot.libraries.eems." + lib)
    cls = getattr(mod, cls_name)
    return cls("R", []).execute(**kw)


def ma(vals, mask=None, dtype=float):
    return numpy.ma.array(vals, mask=mask if mask is not None else [False] * len(vals), dtype=dtype)


def F1():
    a = ma([1.0, -9999.0, 3.0], [0, 1, 0]); b = ma([2.0, 2.0, 2.0])
    r = _exec("Multiply", InFieldNames=[_Const(a), _Const(b)])
    c = _exec("Copy", InFieldName=_Const(a))
    bad = []
    if not isinstance(r, numpy.ma.MaskedArray) or not numpy.ma.getmaskarray(r)[1]:
        bad.append("Multiply drops the mask: %r" % (r,))
    if not isinstance(c, numpy.ma.MaskedArray) or not numpy.ma.getmaskarray(c)[1]:
        bad.append("Copy drops the mask: %r" % (c,))
    return "; ".join(bad) or None


def F2():
    a = ma([1.0, 2.0, 3.0], [0, 1, 0])
    r = _exec("NormalizeCat", InFieldName=_Const(a), RawValues=[1, 2], NormalValues=[0.5, 0.7], DefaultNormalValue=0)
    if not numpy.ma.getmaskarray(r)[1]:
        return "NormalizeCat result not masked where input is masked: %r" % (r,)


def F3():
    a = ma([0.1, 0.2, 0.3, 0.4]).reshape(2, 2); b = ma([0.4, 0.3, 0.2, 0.1]).reshape(2, 2)
    out = []
    r = _exec("FuzzyXOr", "fuzzy", InFieldNames=[_Const(a, fuzzy=True), _Const(b, fuzzy=True)])
    if r.shape != (2, 2):
        out.append("FuzzyXOr 2x2 -> shape %r" % (r.shape,))
    r = _exec("FuzzySelectedUnion", "fuzzy", InFieldNames=[_Const(a, fuzzy=True), _Const(b, fuzzy=True)],
              TruestOrFalsest="Truest", NumberToConsider=1)
    if r.shape != (2, 2):
        out.append("FuzzySelectedUnion 2x2 -> shape %r" % (r.shape,))
    return "; ".join(out) or None


def F4():
    i = ma([1, 2, 3], dtype=int); f = ma([0.5, 0.5, 0.5])
    out = []
    for name, kw in (("Sum", {}), ("Multiply", {}), ("WeightedSum", {"Weights": [1, 0.5]}), ("WeightedMean", {"Weights": [1, 0.5]})):
        for order in ((i, f), (f, i)) if not kw else ((i, i.copy()),):
            try:
                _exec(name, InFieldNames=[_Const(x) for x in order], **kw)
            except Exception as e:
                out.append("%s%s: %s" % (name, [str(x.dtype) for x in order], type(e).__name__))
    try:
        _exec("NormalizeZScore", InFieldName=_Const(i))
    except Exception as e:
        out.append("NormalizeZScore[int]: " + type(e).__name__)
    return "; ".join(out) or None


class _N(object):
    pass


def _testlib():
    """registers (once) a tiny user library mpilot_verif_lib with a logging command N(One?, Many?)"""
    import types
    if "mpilot_verif_lib" in sys.modules:
        return sys.modules["mpilot_verif_lib"]
    m = types.ModuleType("mpilot_verif_lib")
    sys.modules["mpilot_verif_lib"] = m
    code = '''
from mpilot import params
from mpilot.commands import Command
LOG = []
class N(Command):
    inputs = {"One": params.ResultParameter(required=False), "Many": params.ListParameter(params.ResultParameter(), required=False)}
    output = params.BooleanParameter()
    def execute(self, **kw):
        LOG.append(self.result_name)
        if "One" in kw: kw["One"].result
        for c in kw.get("Many", []): c.result
        return True
'''
    exec(compile(code, "mpilot_verif_lib", "exec"), m.__dict__)
    return m


def F5():
    from mpilot.program import Program
    from mpilot.exceptions import RecursiveModelStructure
    m = _testlib()
    out = []
    for src in ("A = N(One = A)", "A = N(One = B)\nB = N(One = A)\nC = N(One = A)", "A = N(Many = [B])\nB = N(Many = [A])"):
        del m.LOG[:]
        old = sys.getrecursionlimit(); sys.setrecursionlimit(400)
        try:
            p = Program.from_source(src, libraries=("mpilot_verif_lib",))
            p.run()
            out.append("%r: run() returned, executed %r" % (src, list(m.LOG)))
        except RecursiveModelStructure:
            pass
        except BaseException as e:
            out.append("%r: %s" % (src, type(e).__name__))
        finally:
            sys.setrecursionlimit(old)
    return "; ".join(out) or None


def F6():
    d = tempfile.mkdtemp(prefix="mpv_")
    try:
        with open(os.path.join(d, "in.csv"), "w") as f:
            f.write("a\n1\n2\n")
        src = 'A = EEMSRead(InFileName="in.csv", InFieldName="a")\nW = EEMSWrite(OutFileName="out.csv", OutFieldNames=[A])\nS = Sum(InFieldNames=[W])\n'
        try:
            _prog(src, wd=d).run()
        except Exception as e:
            if os.path.exists(os.path.join(d, "out.csv")):
                return "rejected with %s but out.csv was already written" % type(e).__name__
            return None
        return "model consuming the result of EEMSWrite as data was accepted"
    finally:
        shutil.rmtree(d)


def F7():
    from mpilot import params
    from mpilot.exceptions import MPilotError

    class P(object):
        working_dir = "/tmp"
        commands = {}
    out = []
    for par, v in ((params.NumberParameter(), [1, 2]), (params.NumberParameter(), None), (params.NumberParameter(), {"a": 1}),
                   (params.PathParameter(must_exist=False), 5), (params.PathParameter(must_exist=False), ["a"]),
                   (params.DataTypeParameter(), ["Float"]), (params.DataTypeParameter(), {"a": 1})):
        try:
            par.clean(v, P(), 3)
        except MPilotError:
            pass
        except Exception as e:
            out.append("%s.clean(%r): raw %s" % (type(par).__name__, v, type(e).__name__))
    return "; ".join(out) or None


def F8():
    from mpilot.libraries.eems.exceptions import MixedArrayShapes
    out = []
    for a, b in (((3,), (4,)), ((2, 3, 4), (2, 3, 5)), ((2, 2), (3,))):
        try:
            str(MixedArrayShapes(a, b, 1))
        except Exception as e:
            out.append("str(MixedArrayShapes(%r,%r)): %s" % (a, b, type(e).__name__))
    return "; ".join(out) or None


def F9():
    from mpilot.parser.parser import Parser
    out = []
    for src in ('A = B(P = "ab\\"")', "A = B(P = [c, a:b])"):
        try:
            Parser().parse(src)
        except SyntaxError:
            pass
        except Exception as e:
            out.append("%r: raw %s" % (src, type(e).__name__))
    return "; ".join(out) or None


def F11():
    from mpilot.parser.parser import Parser
    out = []
    p = Parser()
    p.parse("A = B(\n)\n\n")
    n = p.parse("A = B()").commands[0].lineno
    if n != 1:
        out.append("second parse on same Parser: line %r instead of 1" % n)
    p = Parser(); p.parse("B()")
    if p.parse("A = B()").version != 3:
        out.append("eems_v2 flag persists across parses")
    n = Parser().parse("A = B()\r\nC = D()").commands[1].lineno
    if n != 2:
        out.append("CRLF: second line numbered %r" % n)
    n = Parser().parse('A = B(P = "x\ny")\nC = D()').commands[1].lineno
    if n != 3:
        out.append("newline inside quoted string: following command numbered %r instead of 3" % n)
    return "; ".join(out) or None


def F13():
    from mpilot.utils import EEMS_COMMANDS
    from mpilot.program import Program, EEMS_CSV_LIBRARIES
    from mpilot.exceptions import MPilotError
    p = Program(EEMS_CSV_LIBRARIES)
    out = []
    missing = sorted(k for k, v in EEMS_COMMANDS.items() if v not in p.command_library)
    if missing:
        out.append("EEMS 2.0 names mapped to missing commands: %s" % ",".join(missing))
    for src in ("READ(InFileName = x.csv)", "READ(InFileName = x.csv, InFieldName = [a, b])"):
        try:
            q = Program.from_source(src)
            out.append("%r accepted with result names %r" % (src, list(q.commands)))
        except MPilotError:
            pass
        except Exception as e:
            out.append("%r: raw %s" % (src, type(e).__name__))
    return "; ".join(out) or None


def F14():
    from netCDF4 import Dataset
    from mpilot.program import Program, EEMS_NETCDF_LIBRARIES
    from mpilot.exceptions import MPilotError
    d = tempfile.mkdtemp(prefix="mpv_")
    out = []
    try:
        with Dataset(os.path.join(d, "in.nc"), "w") as ds:
            ds.createDimension("x", 4)
            v = ds.createVariable("x", "f8", ("x",)); v[:] = [0, 1, 2, 3]
            v = ds.createVariable("a", "f8", ("x",)); v[:] = [0.5, -9999.0, 5.0, -0.25]
        def run(extra):
            p = Program.from_source('A = EEMSRead(InFileName="in.nc", InFieldName="a"%s)' % extra, libraries=EEMS_NETCDF_LIBRARIES, working_dir=d)
            p.run(); return p.commands["A"].result
        for extra, want in (("", "ok"), (", MissingValue=-9999", "mask1"), (', DataType="Fuzzy"', "InvalidFuzzyData"), (', DataType="Positive Float"', "InvalidPositiveData")):
            old = sys.getrecursionlimit(); sys.setrecursionlimit(300)
            try:
                r = run(extra); got = "ok"
                if want == "mask1":
                    got = "mask1" if list(numpy.ma.getmaskarray(r)) == [False, True, False, False] else "mask=%r" % (r.mask,)
            except MPilotError as e:
                got = type(e).__name__
                str(e)
            except BaseException as e:
                got = "raw " + type(e).__name__
            finally:
                sys.setrecursionlimit(old)
            if got != want:
                out.append("EEMSRead(%s): %s, expected %s" % (extra.strip(", "), got, want))
    finally:
        shutil.rmtree(d)
    return "; ".join(out) or None


def F15():
    import types
    from mpilot.program import Program
    for name in ("mpvlibx", "mpvlibx_extra"):
        if name not in sys.modules:
            m = types.ModuleType(name); sys.modules[name] = m
            exec(compile("from mpilot.commands import Command\nclass Cmd_%s(Command):\n    pass\n" % name, name, "exec"), m.__dict__)
    p = Program(libraries=("mpvlibx",))
    extra = sorted(n for n, c in p.command_library.items() if c.__module__ != "mpvlibx")
    if extra:
        return "Program(libraries=('mpvlibx',)) also exposes %r from mpvlibx_extra" % extra


def F16():
    d = tempfile.mkdtemp(prefix="mpv_")
    try:
        with open(os.path.join(d, "in.csv"), "w") as f:
            f.write("a\n1\n-9999\n")
        _prog('A = EEMSRead(InFileName="in.csv", InFieldName="a", MissingVal=-9999)\nW = EEMSWrite(OutFileName="out.csv", OutFieldNames=[A])', wd=d).run()
        text = open(os.path.join(d, "out.csv")).read()
        try:
            _prog('A = EEMSRead(InFileName="out.csv", InFieldName="A")', wd=d).run()
        except Exception as e:
            return "missing cell written as %r; reading the column back: %s" % (text.split("\n")[2], type(e).__name__)
    finally:
        shutil.rmtree(d)


def _nc_positive_integer_program(body):
    """a NetCDF variable of non-negative integers read as 'Positive Integer' (numpy.uint), then `body`"""
    import numpy
    from netCDF4 import Dataset
    d = tempfile.mkdtemp(prefix="mpv_")
    try:
        with Dataset(os.path.join(d, "in.nc"), "w") as ds:
            ds.createDimension("x", 3)
            a = ds.createVariable("a", "i4", ("x",)); a[:] = numpy.array([2, 3, 5])
            b = ds.createVariable("b", "i4", ("x",)); b[:] = numpy.array([3, 3, 9])
        src = ('A = EEMSRead(InFileName="in.nc", InFieldName="a", DataType="Positive Integer")\n'
               'B = EEMSRead(InFileName="in.nc", InFieldName="b", DataType="Positive Integer")\n' + body)
        from mpilot.program import Program
        p = Program.from_source(src, libraries=("mpilot.libraries.eems.basic", "mpilot.libraries.eems.netcdf", "mpilot.libraries.eems.fuzzy"), working_dir=d)
        p.run()
        return p
    finally:
        shutil.rmtree(d)


def F17():
    p = _nc_positive_integer_program("N = Normalize(InFieldName=A)")
    got = p.commands["N"].result.tolist()
    if [round(x, 9) for x in got] != [0.0, round(1 / 3.0, 9), 1.0]:
        return "Normalize of the 'Positive Integer' values [2, 3, 5] = %r (expected [0, 1/3, 1])" % (got,)


def F18():
    p = _nc_positive_integer_program("D = AMinusB(A=A, B=B)")
    got = p.commands["D"].result.tolist()
    if [float(x) for x in got] != [-1.0, 0.0, -4.0]:
        return "AMinusB of the 'Positive Integer' values [2, 3, 5] - [3, 3, 9] = %r (expected [-1, 0, -4])" % (got,)


def F19():
    from mpilot.program import Program
    from mpilot.commands import Command

    class AnyProgram(Program):
        def find_command_class(self, name):
            return type(str("F19Any"), (Command,), {"allow_extra_inputs": True, "inputs": {}, "__module__": "mpverif_f19"})
    p = AnyProgram.from_source("A = B(P = [[k: 1, m: x], 2])", libraries=())
    got = p.commands["A"].arguments[0].value[0]
    if got != {"k": 1, "m": "x"}:
        return "the tuple inside the list of `A = B(P = [[k: 1, m: x], 2])` is handed over as %r (expected {'k': 1, 'm': 'x'})" % (got,)


def F20():
    import numpy
    from netCDF4 import Dataset
    from mpilot.program import Program, EEMS_NETCDF_LIBRARIES
    d = tempfile.mkdtemp(prefix="mpv_")
    try:
        with Dataset(os.path.join(d, "in.nc"), "w") as ds:
            ds.createDimension("x", 2)
            x = ds.createVariable("x", "f8", ("x",)); x[:] = numpy.array([10.0, 20.0])
            a = ds.createVariable("a", "f8", ("x",)); a[:] = numpy.ma.array([7.5, 1.0], mask=[False, False])
            b = ds.createVariable("b", "f8", ("x",)); b[:] = numpy.ma.array([-1.0, 2.0], mask=[False, False])
        src = ('A = EEMSRead(InFileName="in.nc", InFieldName=a)\nB = EEMSRead(InFileName="in.nc", InFieldName=b)\nM = Minimum(InFieldNames=[A, B])\n'
               'Out = EEMSWrite(OutFileName="out.nc", OutFieldNames=[M, A], DimensionFileName="in.nc", DimensionFieldName=a)\n')
        p = Program.from_source(src, libraries=EEMS_NETCDF_LIBRARIES, working_dir=d)
        try:
            p.run()
        except Exception as e:
            return "writing [Minimum(A, B), A] to a NetCDF dataset fails: %s" % str(e).split("\n")[0][:160]
    finally:
        shutil.rmtree(d)


def F21():
    import numpy
    from mpilot.commands import Command
    from mpilot.libraries.eems.fuzzy import FuzzyUnion

    def field(name, vals):
        c = Command(name)
        c.is_fuzzy = True
        c._result = numpy.ma.array(vals)
        c.is_finished = True
        return c
    try:
        got = FuzzyUnion("U").execute(InFieldNames=[field("A", [-1, 0, 1]), field("B", [1, 1, 0])]).tolist()
    except Exception as e:
        return "FuzzyUnion of the integer-typed fuzzy fields [-1, 0, 1] and [1, 1, 0] raises %s" % type(e).__name__
    if got != [0.0, 0.5, 0.5]:
        return "FuzzyUnion of the integer-typed fuzzy fields [-1, 0, 1] and [1, 1, 0] = %r (expected [0, 0.5, 0.5])" % (got,)


def F22():
    import numpy
    from mpilot import params
    from mpilot.exceptions import ParameterNotValid
    p = params.DataTypeParameter(valid_types={"Float": numpy.float64, "Integer": int, "Positive Integer": numpy.uint})
    try:
        p.clean(numpy.float32(2.5), None, 3)
    except ParameterNotValid:
        return None
    except Exception as e:
        return "DataTypeParameter.clean(numpy.float32(2.5)) raises %s instead of ParameterNotValid" % type(e).__name__
    return "DataTypeParameter.clean(numpy.float32(2.5)) was accepted"


def F23():
    import warnings
    from mpilot.parser.parser import Parser
    try:
        with warnings.catch_warnings():
            warnings.simplefilter("error")
            v = Parser().parse('A = B(P = "C:\\path")').commands[0].arguments[0].value.value
    except SyntaxError:
        return "a string with an unknown escape is rejected"
    except Exception as e:
        return 'parsing A = B(P = "C:\\path") with warnings as errors raises %s' % type(e).__name__
    if v != "C:\\path":
        return "parsed %r" % v


def F24():
    import numpy
    from mpilot.libraries.eems.basic import NormalizeCat, NormalizeCurve, NormalizeMeanToMid
    from mpilot.arguments import Argument

    class P(object):
        def __init__(self, a):
            self.result = a
            self.is_finished = True
    a = numpy.array([1.0, 3.0, 2.0, 5.0])
    try:
        r = NormalizeCat("R", [Argument("InFieldName", None, 1)]).execute(InFieldName=P(a), RawValues=[1, 3], NormalValues=[10, 30], DefaultNormalValue=-1)
        if numpy.ma.getdata(r).tolist() != [10.0, 30.0, -1.0, -1.0]:
            return "NormalizeCat of the plain array [1, 3, 2, 5] with 1->10, 3->30, default -1 = %r" % numpy.ma.getdata(r).tolist()
        NormalizeCurve("R", [Argument("InFieldName", None, 1)]).execute(InFieldName=P(a), RawValues=[1, 3], NormalValues=[10, 30])
        NormalizeMeanToMid("R", [Argument("InFieldName", None, 1)]).execute(InFieldName=P(a), IgnoreZeros=False, NormalValues=[0, 1, 2, 3, 4])
    except Exception as e:
        return "a conversion of the basic library raises %s on a plain ndarray input" % type(e).__name__


ALL = ["F1", "F2", "F3", "F4", "F5", "F6", "F7", "F8", "F9", "F11", "F13", "F14", "F15", "F16", "F17", "F18", "F19", "F20", "F21", "F22", "F23", "F24"]

if __name__ == "__main__":
    sel = sys.argv[1:] or ALL
    rc = 0
    for k in sel:
        r = globals()[k]()
        print("%s: %s" % (k, "PRESENT - " + r if r else "absent"))
        rc |= bool(r)
    sys.exit(rc)
